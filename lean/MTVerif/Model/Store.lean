/-
  Model/Store.lean — the SQLite trace store (monkeytype/db/sqlite.py:51-129, encoding.py:226-237) as a state machine.

  State = the committed rows in commit order.  One `add` is one atomic step: that *is* the model of the single
  `executemany` inside `with self.conn` (SQLite's transaction; assumed, and exercised on the real engine by the harness).
  Connections / processes share the committed state, so an op carries no connection id: every interleaving of whole
  transactions from any number of writers is some sequence of `add`s.
-/
namespace MT.Store

structure SRow where
  module : String
  qualname : String
  args : String
  ret : Option String        -- SQL NULL = none
  yld : Option String
  deriving DecidableEq, Repr, Inhabited

abbrev State := List SRow

inductive Op where
  | add (batch : List (Option SRow))                   -- `none`: a trace that failed to serialise (skipped, logged)
  | addInterrupted (batch : List (Option SRow)) (after : Nat)   -- the write is aborted after `after` rows: rolled back
  | reopen                                              -- close and reopen the database file
  deriving Repr

def step (s : State) : Op → State
  | .add batch => s ++ batch.filterMap id
  | .addInterrupted _ _ => s
  | .reopen => s

def run (ops : List Op) : State := ops.foldl step []

/-- `module == ? AND instr(qualname, ?) = 1` -/
def rowMatches (m : String) (p : Option String) (r : SRow) : Bool :=
  r.module == m && (match p with | none => true | some p => p.isPrefixOf r.qualname)

/-- keep the first of each group (`GROUP BY` all five columns; NULLs compare equal) -/
def dedup : List SRow → List SRow
  | [] => []
  | r :: rs => r :: (dedup rs).filter (fun x => x != r)

/-- `SQLiteStore.filter(module, qualname_prefix, limit)` for a non-negative limit, as a set-valued answer:
    the rows are returned in an order the query does not determine (all rows of a day tie under ORDER BY date(created_at)) -/
def filter (s : State) (m : String) (p : Option String) (n : Nat) : List SRow :=
  (dedup (s.filter (rowMatches m p))).take n

/-- number of distinct committed matching rows -/
def distinctMatching (s : State) (m : String) (p : Option String) : Nat := (dedup (s.filter (rowMatches m p))).length

def dedupStr : List String → List String
  | [] => []
  | a :: as => a :: (dedupStr as).filter (fun x => x != a)

/-- `list_modules()`: `GROUP BY module`, empty names dropped (`if row[0]`) -/
def listModules (s : State) : List String := dedupStr ((s.map (·.module)).filter (fun m => m != ""))

end MT.Store
