/-
  Model/TDStub.lean — annotations of types *with* anonymous TypedDicts: `ReplaceTypedDictsWithStubs`
  (monkeytype/stubs.py:594-683) replaces every anonymous TypedDict by a forward reference to a generated class and
  collects the class stubs; `build_module_stubs` gives every field annotation its own strip list; the stub is read with
  the generated classes defined after the import block.

  * `renderT nm hint t`      the annotation expression: as `renderE`, with the class-name hint threaded through the
                             containers (`_rewrite_container`: the hint of the i-th argument is `hint` for i = 0 and
                             `hint ++ str(i+1)` otherwise) and `'<Hint>TypedDict__RENAME_ME__[NonTotal]'` at a TypedDict.
  * `classesT nm sm hint t`  the class stubs, in emission order (fields' classes first, then the class; for a mixed
                             TypedDict the total class, then the `NonTotal` subclass with the optional fields).
                             `sm ft` is the strip list of a field of type `ft` (`attribute_stub.strip_modules`).
  * `evalG`, `classTy`       evaluation of an annotation in the namespace of the stub plus a class environment: a
                             generated class denotes the TypedDict of its (evaluated) field annotations; a subclass
                             `class XNonTotal(X, total=False)` inherits the keys of its base; the last definition of a
                             name wins.  Forward references make the recursion go through the environment, so
                             `classTy` takes fuel (the nesting depth of generated classes bounds what is needed).
-/
import MTVerif.Model.EvalAnno
import MTVerif.Model.ModuleRender
namespace MT.Render
open MT

structure ClassDef where
  name : String
  base : Option String                 -- `none`: TypedDict itself
  total : Bool
  fields : List (String × Expr)        -- attribute name, annotation (rendered and stripped)
  deriving Repr, Inhabited, BEq

/-- the name the annotation refers to -/
def refName (hint : String) (req opt : List (String × Ty)) : String :=
  match req, opt with
  | [], _ => tdClassName hint
  | _, [] => tdClassName hint
  | _, _ => tdClassName hint ++ "NonTotal"

mutual
/-- `render_annotation(ReplaceTypedDictsWithStubs(hint).rewrite(t))`, `typing.` prefixes removed -/
def renderT (nm : Names) (hint : String) : Ty → Expr
  | .any => .name ["Any"]
  | .callable => .name ["Callable"]
  | .cls c => clsExpr nm c
  | .typeOf c => .app (.name ["Type"]) [clsExpr nm c]
  | .list t => .app (.name ["List"]) [renderT nm hint t]
  | .set t => .app (.name ["Set"]) [renderT nm hint t]
  | .iterator t => .app (.name ["Iterator"]) [renderT nm hint t]
  | .tupleOf t => .app (.name ["Tuple"]) [renderT nm hint t, .name ["Ellipsis"]]
  | .dict k v => .app (.name ["Dict"]) [renderT nm hint k, renderT nm (hintAt hint 1) v]
  | .ddict k v => .app (.name ["DefaultDict"]) [renderT nm hint k, renderT nm (hintAt hint 1) v]
  | .generator y s r =>
      .app (.name ["Generator"]) [renderT nm hint y, renderT nm (hintAt hint 1) s, renderT nm (hintAt hint 2) r]
  | .tuple ts => (match ts with
                  | [] => .app (.name ["Tuple"]) [.emptyTuple]
                  | _ => .app (.name ["Tuple"]) (renderTL nm hint 0 ts))
  | .union ts =>
      if ts.any isNoneTy then
        (match renderTNN nm hint 0 ts with
         | [e] => .app (.name ["Optional"]) [e]
         | es => .app (.name ["Optional"]) [.app (.name ["Union"]) es])
      else .app (.name ["Union"]) (renderTL nm hint 0 ts)
  | .td req opt => .str (refName hint req opt)
def renderTL (nm : Names) (hint : String) : Nat → List Ty → List Expr
  | _, [] => []
  | i, t :: ts => renderT nm (hintAt hint i) t :: renderTL nm hint (i + 1) ts
def renderTNN (nm : Names) (hint : String) : Nat → List Ty → List Expr
  | _, [] => []
  | i, t :: ts => if isNoneTy t then renderTNN nm hint (i + 1) ts else renderT nm (hintAt hint i) t :: renderTNN nm hint (i + 1) ts
end

mutual
/-- the class stubs `ReplaceTypedDictsWithStubs(hint)` collects for `t`, in emission order -/
def classesT (nm : Names) (sm : Ty → List (List String)) (hint : String) : Ty → List ClassDef
  | .list t | .set t | .iterator t => classesT nm sm hint t
  | .tupleOf t => classesT nm sm hint t
  | .dict k v | .ddict k v => classesT nm sm hint k ++ classesT nm sm (hintAt hint 1) v
  | .generator y s r => classesT nm sm hint y ++ classesT nm sm (hintAt hint 1) s ++ classesT nm sm (hintAt hint 2) r
  | .tuple ts | .union ts => classesTL nm sm hint 0 ts
  | .td req opt =>
      let cn := tdClassName hint
      match req, opt with
      | [], [] => []
      | _, [] => classesF nm sm req ++ [{ name := cn, base := none, total := true, fields := fieldsT nm sm req }]
      | [], _ => classesF nm sm opt ++ [{ name := cn, base := none, total := false, fields := fieldsT nm sm opt }]
      | _, _ => classesF nm sm req ++ [{ name := cn, base := none, total := true, fields := fieldsT nm sm req }] ++
                classesF nm sm opt ++ [{ name := cn ++ "NonTotal", base := some cn, total := false, fields := fieldsT nm sm opt }]
  | _ => []
def classesTL (nm : Names) (sm : Ty → List (List String)) (hint : String) : Nat → List Ty → List ClassDef
  | _, [] => []
  | i, t :: ts => classesT nm sm (hintAt hint i) t ++ classesTL nm sm hint (i + 1) ts
def classesF (nm : Names) (sm : Ty → List (List String)) : List (String × Ty) → List ClassDef
  | [] => []
  | (k, t) :: fs => classesT nm sm k t ++ classesF nm sm fs
/-- the attribute stubs of a generated class: the field's type rewritten with the key as hint, rendered, stripped with the
    field's own module list -/
def fieldsT (nm : Names) (sm : Ty → List (List String)) : List (String × Ty) → List (String × Expr)
  | [] => []
  | (k, t) :: fs => (k, stripE (sm t) (renderT nm k t)) :: fieldsT nm sm fs
end

mutual
/-- `get_imports_for_annotation` of the rewritten type: a forward reference needs no import -/
def importsFR (nm : Names) : Ty → List (String × String)
  | .any => [("typing", "Any")]
  | .callable => [("typing", "Callable")]
  | .cls c => clsImport nm c
  | .typeOf c => ("typing", "Type") :: clsImport nm c
  | .list t => ("typing", "List") :: importsFR nm t
  | .set t => ("typing", "Set") :: importsFR nm t
  | .iterator t => ("typing", "Iterator") :: importsFR nm t
  | .tupleOf t => ("typing", "Tuple") :: importsFR nm t
  | .dict k v => ("typing", "Dict") :: (importsFR nm k ++ importsFR nm v)
  | .ddict k v => ("typing", "DefaultDict") :: (importsFR nm k ++ importsFR nm v)
  | .generator y s r => ("typing", "Generator") :: (importsFR nm y ++ importsFR nm s ++ importsFR nm r)
  | .tuple ts => ("typing", "Tuple") :: importsFRL nm ts
  | .union ts =>
      if ts.any isNoneTy then
        ("typing", "Optional") ::
          ((if (ts.filter (fun t => !isNoneTy t)).length == 1 then [] else [("typing", "Union")]) ++ importsFRNN nm ts)
      else ("typing", "Union") :: importsFRL nm ts
  | .td _ _ => []
def importsFRL (nm : Names) : List Ty → List (String × String)
  | [] => []
  | t :: ts => importsFR nm t ++ importsFRL nm ts
def importsFRNN (nm : Names) : List Ty → List (String × String)
  | [] => []
  | t :: ts => if isNoneTy t then importsFRNN nm ts else importsFR nm t ++ importsFRNN nm ts
end

/-- `sorted(modules, key=len, reverse=True)` (stable) of the modules an import map mentions, as dotted names -/
def stripListOf (imps : List (String × String)) : List (List String) :=
  (((imps.map (·.1)).eraseDups).mergeSort (fun a b => a.length ≥ b.length)).map dotted

/-- `attribute_stub.strip_modules`: the modules of the field annotation's own imports (first-seen order, then longest first) -/
def fieldStrip (nm : Names) (t : Ty) : List (List String) := stripListOf (importsFR nm t)

/-! ### evaluation with generated classes -/

/-- the class a name denotes once the whole stub has been executed: the last definition -/
def lookupC (env : List ClassDef) (s : String) : Option ClassDef := env.reverse.find? (fun d => d.name == s)

/-- the first part of a dotted name -/
def rootOf : List String → String
  | [] => ""
  | r :: _ => r

@[simp] theorem rootOf_cons (r : String) (rs : List String) : rootOf (r :: rs) = r := rfl

def isEllipsisG (ns : NS) (isC : String → Bool) : Expr → Bool
  | .name ps => !isC (rootOf ps) && resolve ns ps == some .ellipsis
  | _ => false

mutual
/-- evaluation of an annotation expression: names of generated classes (`isC`) shadow everything else — the classes are
    defined after the import block — and denote `fwd name`; a quoted forward reference is looked up the same way -/
def evalG (ns : NS) (isC : String → Bool) (fwd : String → Option Ty) : Expr → Option Ty
  | .name ps =>
      if isC (rootOf ps) then (match ps with | [x] => fwd x | _ => none)
      else
      (match resolve ns ps with
       | some (.cls c) => some (.cls c)
       | some (.typing n) =>
           if n == "Any" then some .any else if n == "Callable" then some .callable
           -- a bare generic: every parameter is Any
           else if n == "List" then some (.list .any) else if n == "Set" then some (.set .any)
           else if n == "Dict" then some (.dict .any .any) else if n == "Tuple" then some (.tupleOf .any) else none
       | _ => none)
  | .app h as =>
      let vs := evalGL ns isC fwd as
      let hd := evalGHead ns isC fwd as
      (match h with
       | .name [hn] =>
         if isC hn then none else
         (match resolve ns [hn] with
          | some (.typing n) =>
            if n == "List" then (match vs with | some [a] => some (.list a) | _ => none)
            else if n == "Set" then (match vs with | some [a] => some (.set a) | _ => none)
            else if n == "Iterator" then (match vs with | some [a] => some (.iterator a) | _ => none)
            else if n == "Dict" then (match vs with | some [a, b] => some (.dict a b) | _ => none)
            else if n == "DefaultDict" then (match vs with | some [a, b] => some (.ddict a b) | _ => none)
            else if n == "Generator" then (match vs with | some [a, b, c] => some (.generator a b c) | _ => none)
            else if n == "Type" then (match vs with | some [.cls c] => some (.typeOf c) | _ => none)
            else if n == "Union" then vs.map mkUnion
            else if n == "Optional" then (match vs with | some [a] => some (mkUnion [a, .cls noneC]) | _ => none)
            else if n == "Tuple" then
              (match as with
               | [.emptyTuple] => some (.tuple [])
               | [_, b] => if isEllipsisG ns isC b then hd.map .tupleOf else vs.map .tuple
               | _ => vs.map .tuple)
            else none
          | _ => none)
       | _ => none)
  | .str s => if isC s then fwd s else none
  | .emptyTuple => none
def evalGL (ns : NS) (isC : String → Bool) (fwd : String → Option Ty) : List Expr → Option (List Ty)
  | [] => some []
  | e :: es => (match evalG ns isC fwd e, evalGL ns isC fwd es with
                | some t, some ts => some (t :: ts)
                | _, _ => none)
def evalGHead (ns : NS) (isC : String → Bool) (fwd : String → Option Ty) : List Expr → Option Ty
  | [] => none
  | e :: _ => evalG ns isC fwd e
end

def evalFields (ev : Expr → Option Ty) : List (String × Expr) → Option (List (String × Ty))
  | [] => some []
  | (k, e) :: fs => (match ev e, evalFields ev fs with
                     | some t, some ts => some ((k, t) :: ts)
                     | _, _ => none)

def hasC (env : List ClassDef) (s : String) : Bool := (lookupC env s).isSome

/-- the base-class name of the generated classes denotes `mypy_extensions.TypedDict` (no later import rebinds `TypedDict`) -/
def tdBaseOk (ns : NS) : Bool := lastImport ns.imports "TypedDict" == some "mypy_extensions"

/-- what a generated class denotes: the TypedDict of its evaluated fields; a subclass adds its fields to the required
    (total) or optional (`total=False`) keys of its base.  `n` bounds the chain of forward references followed. -/
def classTy (ns : NS) (env : List ClassDef) : Nat → String → Option Ty
  | 0, _ => none
  | n + 1, s =>
    match lookupC env s with
    | none => none
    | some d =>
      match evalFields (evalG ns (hasC env) (fun x => classTy ns env n x)) d.fields with
      | none => none
      | some fs =>
        match d.base with
        | none => if tdBaseOk ns then some (if d.total then .td fs [] else .td [] fs) else none
        | some b =>
          match classTy ns env n b with
          | some (.td rb ob) => some (if d.total then .td (rb ++ fs) ob else .td rb (ob ++ fs))
          | _ => none

/-- an annotation of a stub with class environment `env`, forward references followed `n` deep -/
def evalT (ns : NS) (env : List ClassDef) (n : Nat) (e : Expr) : Option Ty :=
  evalG ns (hasC env) (classTy ns env n) e

/-! ### the decidable side conditions -/

def clsOkT (ns : NS) (isC : String → Bool) (nm : Names) (mods : List (List String)) (c : ClassId) : Bool :=
  let ps := stripParts mods (clsParts nm c)
  !isC (rootOf ps) && resolve ns ps == some (.cls c)

def typingOkT (ns : NS) (isC : String → Bool) (mods : List (List String)) (n : String) : Bool :=
  !isC n && typingOk ns mods n

mutual
/-- every name the annotation of `t` uses — in the annotation itself under the strip list `mods`, and in the fields of
    the generated classes under their own strip lists — denotes what was rendered and is not shadowed by a generated
    class; no TypedDict is empty (`rewrite_anonymous_TypedDict` raises on one; `shrink_types` never builds one) -/
def namesOkT (ns : NS) (isC : String → Bool) (nm : Names) (sm : Ty → List (List String)) (mods : List (List String)) : Ty → Bool
  | .any => typingOkT ns isC mods "Any"
  | .callable => typingOkT ns isC mods "Callable"
  | .cls c => clsOkT ns isC nm mods c
  | .typeOf c => typingOkT ns isC mods "Type" && clsOkT ns isC nm mods c
  | .list t => typingOkT ns isC mods "List" && namesOkT ns isC nm sm mods t
  | .set t => typingOkT ns isC mods "Set" && namesOkT ns isC nm sm mods t
  | .iterator t => typingOkT ns isC mods "Iterator" && namesOkT ns isC nm sm mods t
  | .tupleOf t => typingOkT ns isC mods "Tuple" && stripParts mods ["Ellipsis"] == ["Ellipsis"] && !isC "Ellipsis" &&
      resolve ns ["Ellipsis"] == some .ellipsis && namesOkT ns isC nm sm mods t
  | .dict k v => typingOkT ns isC mods "Dict" && namesOkT ns isC nm sm mods k && namesOkT ns isC nm sm mods v
  | .ddict k v => typingOkT ns isC mods "DefaultDict" && namesOkT ns isC nm sm mods k && namesOkT ns isC nm sm mods v
  | .generator y s r => typingOkT ns isC mods "Generator" && namesOkT ns isC nm sm mods y && namesOkT ns isC nm sm mods s &&
      namesOkT ns isC nm sm mods r
  | .tuple ts => typingOkT ns isC mods "Tuple" && namesOkTL ns isC nm sm mods ts
  | .union ts =>
      (if ts.any isNoneTy then typingOkT ns isC mods "Optional" &&
          (decide ((ts.filter (fun t => !isNoneTy t)).length = 1) || typingOkT ns isC mods "Union")
       else typingOkT ns isC mods "Union") && namesOkTL ns isC nm sm mods ts
  | .td req opt => tdBaseOk ns && (!req.isEmpty || !opt.isEmpty) && namesOkTF ns isC nm sm req && namesOkTF ns isC nm sm opt
def namesOkTL (ns : NS) (isC : String → Bool) (nm : Names) (sm : Ty → List (List String)) (mods : List (List String)) : List Ty → Bool
  | [] => true
  | t :: ts => namesOkT ns isC nm sm mods t && namesOkTL ns isC nm sm mods ts
def namesOkTF (ns : NS) (isC : String → Bool) (nm : Names) (sm : Ty → List (List String)) : List (String × Ty) → Bool
  | [] => true
  | (_, t) :: fs => namesOkT ns isC nm sm (sm t) t && namesOkTF ns isC nm sm fs
end

mutual
/-- how deep forward references nest below `t` (a mixed TypedDict costs two: the subclass, then its base) -/
def tdDepth : Ty → Nat
  | .list t | .set t | .iterator t | .tupleOf t => tdDepth t
  | .dict k v | .ddict k v => max (tdDepth k) (tdDepth v)
  | .generator y s r => max (tdDepth y) (max (tdDepth s) (tdDepth r))
  | .tuple ts | .union ts => tdDepthL ts
  | .td req opt => 2 + max (tdDepthF req) (tdDepthF opt)
  | _ => 0
def tdDepthL : List Ty → Nat
  | [] => 0
  | t :: ts => max (tdDepth t) (tdDepthL ts)
def tdDepthF : List (String × Ty) → Nat
  | [] => 0
  | (_, t) :: fs => max (tdDepth t) (tdDepthF fs)
end

/-- every class generated for `t` is what its name denotes in the stub (no other definition of that name comes later) -/
def ClassesIn (env : List ClassDef) (cs : List ClassDef) : Prop := ∀ d ∈ cs, lookupC env d.name = some d

/-- the same, computed (driver; `==` on class definitions is the derived structural comparison) -/
def classesInB (env : List ClassDef) (cs : List ClassDef) : Bool := cs.all (fun d => lookupC env d.name == some d)

/-- `ClassStub.render` of a generated class: header, then the attribute stubs sorted by name, indented -/
def classText (d : ClassDef) : String :=
  let baseS := match d.base with | none => "TypedDict" | some b => b
  let header := "class " ++ d.name ++ "(" ++ baseS ++ (if d.total then "" else ", total=False") ++ "):"
  let attrs := (d.fields.mergeSort (fun a b => decide (a.1 ≤ b.1))).map (fun kv => "    " ++ kv.1 ++ ": " ++ printE kv.2)
  "\n".intercalate (header :: attrs)

/-- the generated classes of a stub in the order `ModuleStub.render` defines them: `sorted((name, text))` -/
def stubOrder (cs : List ClassDef) : List ClassDef :=
  ((cs.map (fun d => ((d.name, classText d), d))).mergeSort (fun a b => blockLe a.1 b.1)).map (·.2)

end MT.Render
