/-
  Model/TdSize.lean — observables of C06: which TypedDict nodes a type contains and how large they are.
-/
import MTVerif.Model.Infer
namespace MT

mutual
/-- some anonymous TypedDict node occurs in the type -/
def Ty.hasTD : Ty → Bool
  | .list t | .set t | .tupleOf t | .iterator t => t.hasTD
  | .dict a b | .ddict a b => a.hasTD || b.hasTD
  | .generator a b c => a.hasTD || b.hasTD || c.hasTD
  | .tuple ts | .union ts => hasTDL ts
  | .td _ _ => true
  | _ => false
def hasTDL : List Ty → Bool
  | [] => false
  | t :: ts => t.hasTD || hasTDL ts
end

mutual
/-- every TypedDict node of the type has between 1 and `k` keys in total -/
def Ty.tdOk (k : Nat) : Ty → Bool
  | .list t | .set t | .tupleOf t | .iterator t => t.tdOk k
  | .dict a b | .ddict a b => a.tdOk k && b.tdOk k
  | .generator a b c => a.tdOk k && b.tdOk k && c.tdOk k
  | .tuple ts | .union ts => tdOkL k ts
  | .td r o => decide (0 < r.length + o.length) && decide (r.length + o.length ≤ k) && tdOkF k r && tdOkF k o
  | _ => true
def tdOkL (k : Nat) : List Ty → Bool
  | [] => true
  | t :: ts => t.tdOk k && tdOkL k ts
def tdOkF (k : Nat) : List (String × Ty) → Bool
  | [] => true
  | (_, t) :: fs => t.tdOk k && tdOkF k fs
end

end MT
