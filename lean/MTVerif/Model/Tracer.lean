/-
  Model/Tracer.lean — `CallTracer` (monkeytype/tracing.py:179-320) as a state machine over profiler events,
  with sampling (C18) and the code filter (C17) as parameters.

  What the tracer can see of an event is separated from the ground truth of what the frame did:
  `op` / `coro` / `resumed` are read off the frame by the tracer (last opcode, CO_COROUTINE, RESUME argument);
  `sem` is what really happened.  `Ev.consistent` is the (assumed, observed) CPython mapping between the two.
-/
import MTVerif.Model.Infer
namespace MT.Tracer
open MT

abbrev FrameId := Nat
abbrev CodeId := Nat
abbrev FuncId := Nat

/-- how `handle_return` reads the way the frame was left: from the opcode at `f_lasti` (RETURN_VALUE, RETURN_CONST, YIELD_VALUE,
    anything else = unwinding), and — since fix 4a9731f — `other` also for a frame that was re-entered by throw() / close() at a
    YIELD_VALUE no `try` of its own covers and is left at that same instruction with None (CPython unwinds such a frame from the
    very instruction it was suspended at).  The event recorder of the harness makes this reading from outside the tracer. -/
inductive Op where | retValue | retConst | yieldValue | other
  deriving DecidableEq, Repr

/-- what the frame really did when the profiler saw a `return` event -/
inductive Sem where | returned | yielded | awaited | raised
  deriving DecidableEq, Repr

inductive Ev where
  /-- `call` event: `resumed` = the RESUME argument is non-zero (a suspended generator/coroutine continues);
      `args` = names and `get_type`s of the parameters bound in `f_locals` right now -/
  | call (fid : FrameId) (code : CodeId) (resumed : Bool) (args : List (String × Ty))
  /-- `return` event with `get_type(arg)` -/
  | ret (fid : FrameId) (code : CodeId) (op : Op) (coro : Bool) (sem : Sem) (ty : Ty)
  /-- any other profiler event (c_call, c_return, c_exception) -/
  | other (fid : FrameId) (code : CodeId)
  deriving Repr

def Ev.fid : Ev → FrameId | .call f _ _ _ => f | .ret f _ _ _ _ _ => f | .other f _ => f
def Ev.code : Ev → CodeId | .call _ c _ _ => c | .ret _ c _ _ _ _ => c | .other _ c => c

/-- the CPython 3.12 mapping from what happened to what the tracer can observe -/
def Ev.consistent : Ev → Bool
  | .ret _ _ op coro sem _ =>
      (match sem with
       | .returned => op == .retValue || op == .retConst
       | .yielded => op == .yieldValue && !coro
       | .awaited => op == .yieldValue && coro
       | .raised => op == .other)
  | _ => true

structure Cfg where
  admits : CodeId → Bool                 -- `should_trace(code)` (true when no filter) and co_name != "trace_types"
  resolve : CodeId → Option FuncId      -- `_get_func` (cached per code object)
  rate : Option Nat                     -- sample_rate

structure PTrace where
  func : FuncId
  args : List (String × Ty)
  ret : Option Ty
  yld : Option Ty
  deriving Repr, Inhabited

structure State where
  traces : List (FrameId × PTrace)      -- self.traces, keyed by frame
  log : List (FrameId × PTrace)         -- what has been handed to logger.log, oldest first (tagged with the frame for the spec)
  draws : List Nat                      -- the stream `random.randrange(rate)` will produce
  deriving Repr, Inhabited

def lookupT (fid : FrameId) : List (FrameId × PTrace) → Option PTrace
  | [] => none
  | (f, t) :: rest => if f == fid then some t else lookupT fid rest

def eraseT (fid : FrameId) : List (FrameId × PTrace) → List (FrameId × PTrace)
  | [] => []
  | (f, t) :: rest => if f == fid then eraseT fid rest else (f, t) :: eraseT fid rest

def setT (fid : FrameId) (t : PTrace) (m : List (FrameId × PTrace)) : List (FrameId × PTrace) :=
  (fid, t) :: eraseT fid m

/-- `CallTrace.add_yield_type` -/
def addYield (t : PTrace) (ty : Ty) : PTrace :=
  { t with yld := some (match t.yld with | none => ty | some y => mkUnion [y, ty]) }

/-- the sampling draw of `handle_call`: (skip this call?, remaining draws) -/
def sampleDraw (rate : Option Nat) (draws : List Nat) : Bool × List Nat :=
  match rate with
  | none => (false, draws)
  | some 0 => (false, draws)                 -- `if self.sample_rate and …`: 0 is falsy
  | some _ => (match draws with
               | [] => (false, [])
               | d :: ds => (d != 0, ds))

/-- the rest of `handle_call`: resolve the function, ignore a frame that is already being traced, record the arguments -/
def beginTrace (cfg : Cfg) (s : State) (fid : FrameId) (code : CodeId) (args : List (String × Ty)) : State :=
  match cfg.resolve code with
  | none => s
  | some f =>
    if (lookupT fid s.traces).isSome then s
    else { s with traces := setT fid { func := f, args := args, ret := none, yld := none } s.traces }

/-- `handle_return` for a frame that is being traced -/
def endEvent (s : State) (fid : FrameId) (t : PTrace) (op : Op) (coro : Bool) (ty : Ty) : State :=
  if op == .yieldValue then
    if coro then s else { s with traces := setT fid (addYield t ty) s.traces }
  else
    let t' := if op == .retValue || op == .retConst then { t with ret := some ty } else t
    { s with traces := eraseT fid s.traces, log := s.log ++ [(fid, t')] }

/-- `CallTracer.__call__` on one event -/
def step (cfg : Cfg) (s : State) : Ev → State
  | .other _ _ => s
  | .call fid code resumed args =>
    if !cfg.admits code then s
    else if resumed then s                       -- _is_resumption: not a new call
    else
      -- the sampling draw happens before anything else
      let d := sampleDraw cfg.rate s.draws
      if d.1 then { s with draws := d.2 } else beginTrace cfg { s with draws := d.2 } fid code args
  | .ret fid code op coro _ ty =>
    if !cfg.admits code then s
    else match lookupT fid s.traces with
      | none => s
      | some t => endEvent s fid t op coro ty

def run (cfg : Cfg) (draws : List Nat) (es : List Ev) : State :=
  es.foldl (step cfg) { traces := [], log := [], draws := draws }

end MT.Tracer
