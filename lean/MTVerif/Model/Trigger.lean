/-
  Model/Trigger.lean — the documented trigger of each shipped rewriter, and normal forms of union nodes.
-/
import MTVerif.Model.Rewrite
namespace MT

mutual
/-- every union node is already what `typing.Union[...]` would build (flat, no duplicates, at least two members) -/
def Ty.normal : Ty → Bool
  | .list t | .set t | .tupleOf t | .iterator t => t.normal
  | .dict a b | .ddict a b => a.normal && b.normal
  | .generator a b c => a.normal && b.normal && c.normal
  | .tuple ts => normalL ts
  | .union ts => normalL ts && Ty.beq' (mkUnion ts) (.union ts)
  | .td r o => normalF r && normalF o
  | _ => true
def normalL : List Ty → Bool
  | [] => true
  | t :: ts => t.normal && normalL ts
def normalF : List (String × Ty) → Bool
  | [] => true
  | (_, t) :: fs => t.normal && normalF fs
end

/-- the trigger of rewriter `r` at one union node with members `ts` -/
def nodeTrig (r : RW) (ts : List Ty) : Bool :=
  match r with
  | .removeEmpty => ts.any (dropEmpty ts)            -- an empty container next to a non-empty one of the same kind
  | .configDict =>                                    -- all members are dicts with one key type
      (match ts with
       | [] => false
       | t0 :: _ => ts.all Ty.isDict && ts.all (fun t => Ty.eqv t0.dictKey t.dictKey))
  | .largeUnion n => decide (n < ts.length)           -- more members than the configured maximum
  | .mscb => ts.all (fun t => t.clsId?.isSome)        -- a union of plain classes
  | _ => false

mutual
/-- the trigger of `r` occurs somewhere in the type -/
def Ty.trig (r : RW) : Ty → Bool
  | .list t | .set t | .tupleOf t | .iterator t => t.trig r
  | .dict a b | .ddict a b => a.trig r || b.trig r
  | .generator y s r' =>
      (match r with
       | .generator => (match s, r' with
                        | .cls c1, .cls c2 => c1 == noneC && c2 == noneC
                        | _, _ => false)
       | _ => false) || y.trig r || s.trig r || r'.trig r
  | .tuple ts => trigL r ts
  | .union ts => nodeTrig r ts || trigL r ts
  | .td a b => (match r with | .anonTD => true | _ => false) || trigF r a || trigF r b
  | _ => false
def trigL (r : RW) : List Ty → Bool
  | [] => false
  | t :: ts => t.trig r || trigL r ts
def trigF (r : RW) : List (String × Ty) → Bool
  | [] => false
  | (_, t) :: fs => t.trig r || trigF r fs
end

end MT
