/-
  Model/Ty.lean — the types MonkeyType can build (`Ty`), the runtime values of the
  value grammar (`Val`) and the formal conformance oracle `conforms`.

  Import-free (core Lean only) so that the driver can be compiled.
  Anchors: monkeytype/typing.py (get_type, shrink_types), monkeytype/compat.py.
-/
namespace MT

abbrev ClassId := Nat

inductive Ty where
  | any
  | cls (c : ClassId)
  | typeOf (c : ClassId)            -- Type[C]
  | callable                        -- bare typing.Callable
  | list (t : Ty)
  | set (t : Ty)
  | dict (k v : Ty)
  | ddict (k v : Ty)                -- DefaultDict[k, v]
  | tuple (ts : List Ty)            -- Tuple[t1, …, tn]; Tuple[()] = tuple []
  | tupleOf (t : Ty)                -- Tuple[t, ...] (only RewriteLargeUnion builds it)
  | iterator (t : Ty)               -- Iterator[t]
  | generator (y s r : Ty)          -- Generator[y, s, r]
  | union (ts : List Ty)
  | td (req opt : List (String × Ty))   -- anonymous TypedDict (required, optional)
  deriving Repr, Inhabited, BEq

inductive Val where
  | inst (c : ClassId)              -- any non-container instance (None, ints, user objects, container *subclass* instances)
  | str (s : String)
  | classObj (c : ClassId)
  | func                            -- functions, lambdas, bound methods, builtins
  | genObj                          -- generator objects
  | list (vs : List Val)
  | set (vs : List Val)
  | tuple (vs : List Val)
  | dict (kvs : List (Val × Val))
  | ddict (kvs : List (Val × Val))
  deriving Repr, Inhabited, BEq

mutual
def Ty.size : Ty → Nat
  | .any | .cls _ | .typeOf _ | .callable => 1
  | .list t | .set t | .tupleOf t | .iterator t => 1 + t.size
  | .dict k v | .ddict k v => 1 + k.size + v.size
  | .generator y s r => 1 + y.size + s.size + r.size
  | .tuple ts | .union ts => 1 + sizeL ts
  | .td r o => 1 + sizeF r + sizeF o
def sizeL : List Ty → Nat
  | [] => 0
  | t :: ts => t.size + sizeL ts
def sizeF : List (String × Ty) → Nat
  | [] => 0
  | (_, t) :: fs => 1 + t.size + sizeF fs
end

-- fixed class ids of the builtins the model needs to know about; user classes start at 32
def strC : ClassId := 0
def listC : ClassId := 1
def setC : ClassId := 2
def tupleC : ClassId := 3
def dictC : ClassId := 4
def ddictC : ClassId := 5
def typeC : ClassId := 6
def funcC : ClassId := 7
def genC : ClassId := 8
def noneC : ClassId := 9
def objectC : ClassId := 10
def intC : ClassId := 11
def boolC : ClassId := 12
def floatC : ClassId := 13
def bytesC : ClassId := 14

def Val.classOf : Val → ClassId
  | .inst c => c
  | .str _ => strC
  | .classObj _ => typeC
  | .func => funcC
  | .genObj => genC
  | .list _ => listC
  | .set _ => setC
  | .tuple _ => tupleC
  | .dict _ => dictC
  | .ddict _ => ddictC

def Val.isStr (s : String) : Val → Bool | .str s' => s' == s | _ => false

theorem Val.isStr_iff (s : String) (v : Val) : v.isStr s = true ↔ v = .str s := by
  cases v <;> simp [Val.isStr]

def Val.strKey? : Val → Option String | .str s => some s | _ => none

/-- Python keywords (`keyword.kwlist`) -/
def pyKeywords : List String :=
  ["False", "None", "True", "and", "as", "assert", "async", "await", "break", "class", "continue", "def", "del", "elif", "else",
   "except", "finally", "for", "from", "global", "if", "import", "in", "is", "lambda", "nonlocal", "not", "or", "pass", "raise",
   "return", "try", "while", "with", "yield"]

/-- `str.isidentifier(s) and not keyword.iskeyword(s)`, exact on ASCII (letters, digits, underscore, not starting with a
    digit); a non-ASCII character is taken for a letter (the harness only uses non-ASCII letters in keys) -/
def isIdent (s : String) : Bool :=
  match s.toList with
  | [] => false
  | c :: cs => (c.isAlpha || c == '_' || decide (c.val ≥ 128)) &&
               cs.all (fun d => d.isAlphanum || d == '_' || decide (d.val ≥ 128)) && !pyKeywords.contains s

/-- a key a generated (class-syntax) TypedDict can have: a string that is an identifier -/
def Val.tdKeyOk : Val → Bool | .str s => isIdent s | _ => false

theorem Val.tdKeyOk_strKey (v : Val) (h : v.tdKeyOk = true) : v.strKey?.isSome = true := by
  cases v <;> simp_all [Val.tdKeyOk, Val.strKey?]

theorem all_tdKeyOk_strKey (kvs : List (Val × Val)) (h : kvs.all (fun kv => kv.1.tdKeyOk) = true) :
    kvs.all (fun kv => kv.1.strKey?.isSome) = true := by
  simp only [List.all_eq_true] at h ⊢
  exact fun kv hkv => Val.tdKeyOk_strKey kv.1 (h kv hkv)

/-- first-match lookup, as a Python dict lookup on an association list -/
def lookupF (s : String) : List (String × Ty) → Option Ty
  | [] => none
  | (k, t) :: fs => if k = s then some t else lookupF s fs

section
variable (sub : ClassId → ClassId → Bool) (ao : Bool)

mutual
/-- The reference conformance oracle: does value `v` belong to type `t`?
    `sub c d` is `issubclass(c, d)`.  `ao` is the reading of `Any`: `true` = the usual one (Any admits
    everything), `false` = the *tight* reading (Any admits nothing, so `List[Any]` admits only the empty
    list — which is what an inferred `C[Any]` stands for before any rewriter has run). -/
def conforms : Ty → Val → Bool
  | .any, _ => ao
  | .cls d, v => sub v.classOf d
  | .typeOf d, .classObj c => sub c d
  | .typeOf _, _ => false
  | .callable, .func => true
  | .callable, _ => false
  | .iterator _, .genObj => true
  | .iterator _, _ => false
  | .generator _ _ _, .genObj => true
  | .generator _ _ _, _ => false
  | .list t, .list vs => vs.all (fun v => conforms t v)
  | .list _, _ => false
  | .set t, .set vs => vs.all (fun v => conforms t v)
  | .set _, _ => false
  | .dict k v, .dict kvs => kvs.all (fun kv => conforms k kv.1 && conforms v kv.2)
  | .dict k v, .ddict kvs => kvs.all (fun kv => conforms k kv.1 && conforms v kv.2)
  | .dict _ _, _ => false
  | .ddict k v, .ddict kvs => kvs.all (fun kv => conforms k kv.1 && conforms v kv.2)
  | .ddict _ _, _ => false
  | .tuple ts, .tuple vs => conformsL ts vs
  | .tuple _, _ => false
  | .tupleOf t, .tuple vs => vs.all (fun v => conforms t v)
  | .tupleOf _, _ => false
  | .union ts, v => conformsAny ts v
  | .td req opt, .dict kvs =>
      conformsReq req kvs && kvs.all (fun kv => match kv.1 with
        | .str s => conformsField req s kv.2 || conformsField opt s kv.2
        | _ => false)
  | .td _ _, _ => false
def conformsL : List Ty → List Val → Bool
  | [], [] => true
  | t :: ts, v :: vs => conforms t v && conformsL ts vs
  | _, _ => false
def conformsAny : List Ty → Val → Bool
  | [], _ => false
  | t :: ts, v => conforms t v || conformsAny ts v
/-- every required key is present (with a conforming value) -/
def conformsReq : List (String × Ty) → List (Val × Val) → Bool
  | [], _ => true
  | (k, t) :: fs, kvs => kvs.any (fun kv => kv.1.isStr k && conforms t kv.2) && conformsReq fs kvs
def conformsField : List (String × Ty) → String → Val → Bool
  | [], _, _ => false
  | (k, t) :: fs, s, v => if k = s then conforms t v else conformsField fs s v
end
end

/-- string keys of an association list of values -/
def strKeys (kvs : List (Val × Val)) : List String := kvs.filterMap (fun kv => kv.1.strKey?)

mutual
/-- well-formed value: the string keys of every dict are pairwise distinct (a Python dict cannot repeat a key) -/
def Val.wf : Val → Bool
  | .list vs | .set vs | .tuple vs => wfL vs
  | .dict kvs | .ddict kvs => wfKV kvs && decide (strKeys kvs).Nodup
  | _ => true
def wfL : List Val → Bool
  | [] => true
  | v :: vs => v.wf && wfL vs
def wfKV : List (Val × Val) → Bool
  | [] => true
  | (a, b) :: kvs => a.wf && b.wf && wfKV kvs
end

mutual
/-- well-formed type: the keys of every TypedDict field list are pairwise distinct
    (they are Python dicts; `make_typed_dict`, typing.py:55-69) -/
def Ty.wf : Ty → Bool
  | .list t | .set t | .tupleOf t | .iterator t => t.wf
  | .dict k v | .ddict k v => k.wf && v.wf
  | .generator y s r => y.wf && s.wf && r.wf
  | .tuple ts | .union ts => wfTL ts
  | .td r o => wfTF r && wfTF o && decide ((r.map Prod.fst).Nodup) && decide ((o.map Prod.fst).Nodup)
  | _ => true
def wfTL : List Ty → Bool
  | [] => true
  | t :: ts => t.wf && wfTL ts
def wfTF : List (String × Ty) → Bool
  | [] => true
  | (_, t) :: fs => t.wf && wfTF fs
end

end MT
