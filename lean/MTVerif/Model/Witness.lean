/-
  Model/Witness.lean — the formal witness oracle of C05 (tightness).

  `witnessed e vs t`: walking the type `t` in lock-step with the multiset `vs` of values observed at this
  position, every alternative of `t` is inhabited:
  * `cls c` needs a value of *exact* class `c`; `Type[c]` the class object `c`; Callable a callable; Iterator[Any] a generator;
  * every union member must itself be witnessed;
  * `Any` is accepted only when the flag `e` ("an empty container was observed at the parent position") is set;
  * `td req opt`: every required key is in every observed dict, every optional key is missing from at least one
    and present in at least one, and each field type is witnessed by the values under that key.
-/
import MTVerif.Model.Infer
namespace MT

def Val.asList? : Val → Option (List Val) | .list vs => some vs | _ => none
def Val.asSet? : Val → Option (List Val) | .set vs => some vs | _ => none
def Val.asTuple? : Val → Option (List Val) | .tuple vs => some vs | _ => none
def Val.asDict? : Val → Option (List (Val × Val)) | .dict kvs => some kvs | _ => none
def Val.asDDict? : Val → Option (List (Val × Val)) | .ddict kvs => some kvs | _ => none

def hasKey (s : String) (kvs : List (Val × Val)) : Bool := kvs.any (fun kv => kv.1.isStr s)
/-- the values stored under string key `s` in each of the dicts -/
def column (s : String) (ds : List (List (Val × Val))) : List Val :=
  ds.flatMap (fun kvs => (kvs.filter (fun kv => kv.1.isStr s)).map Prod.snd)

mutual
def witnessed (e : Bool) (vs : List Val) : Ty → Bool
  | .any => e
  | .cls c => vs.any (fun v => match v with | .inst c' => c' == c | .str _ => c == strC | _ => false)
  | .typeOf c => vs.any (fun v => match v with | .classObj c' => c' == c | _ => false)
  | .callable => vs.any (fun v => match v with | .func => true | _ => false)
  | .iterator t => (match t with | .any => true | _ => false) && vs.any (fun v => match v with | .genObj => true | _ => false)
  | .generator _ _ _ => false
  | .tupleOf _ => false
  | .list t =>
      let ls := vs.filterMap Val.asList?
      !ls.isEmpty && witnessed (ls.any List.isEmpty) ls.flatten t
  | .set t =>
      let ls := vs.filterMap Val.asSet?
      !ls.isEmpty && witnessed (ls.any List.isEmpty) ls.flatten t
  | .tuple ts =>
      let tups := (vs.filterMap Val.asTuple?).filter (fun tup => tup.length == ts.length)
      !tups.isEmpty && witnessedCols tups 0 ts
  | .union ts => !ts.isEmpty && witnessedAll e vs ts
  | .dict k v =>
      let ds := vs.filterMap Val.asDict?
      !ds.isEmpty && witnessed (ds.any List.isEmpty) (ds.flatten.map Prod.fst) k
        && witnessed (ds.any List.isEmpty) (ds.flatten.map Prod.snd) v
  | .ddict k v =>
      let ds := vs.filterMap Val.asDDict?
      !ds.isEmpty && witnessed (ds.any List.isEmpty) (ds.flatten.map Prod.fst) k
        && witnessed (ds.any List.isEmpty) (ds.flatten.map Prod.snd) v
  | .td r o =>
      let ds := vs.filterMap Val.asDict?
      !ds.isEmpty && witnessedReq ds r && witnessedOpt ds o
def witnessedAll (e : Bool) (vs : List Val) : List Ty → Bool
  | [] => true
  | t :: ts => witnessed e vs t && witnessedAll e vs ts
def witnessedCols (tups : List (List Val)) (i : Nat) : List Ty → Bool
  | [] => true
  | t :: ts => witnessed false (tups.filterMap (fun tup => tup[i]?)) t && witnessedCols tups (i + 1) ts
def witnessedReq (ds : List (List (Val × Val))) : List (String × Ty) → Bool
  | [] => true
  | (s, t) :: fs => ds.all (hasKey s) && witnessed false (column s ds) t && witnessedReq ds fs
def witnessedOpt (ds : List (List (Val × Val))) : List (String × Ty) → Bool
  | [] => true
  | (s, t) :: fs => ds.any (fun d => !hasKey s d) && ds.any (hasKey s) && witnessed false (column s ds) t
      && witnessedOpt ds fs
end

end MT
