/-
  Props/C01.lean — C01: emitted annotations admit every value seen at runtime (run → store → stub).

  The composition theorem.  For one position (a parameter, the return value or the yield value of one function):

    values bound there in the calls that were logged            vs           (C02: each completed call logs its own types)
    per-call types, trace time                                  vs.map (getType k)                    (C04)
    rows written to the store                                   … .map (encodeTy nm)                  (C08)
    rows handed back by `filter`                                any list with the same members        (C09: dedup, any order)
    decoded, undecodable rows skipped                           decodeAll env rows                    (C08, C10)
    merged                                                      shrink k …                            (C04, C05)
    rewritten by the configured rewriter                        rewriteChain h cfg.chain …            (C07)
    combined with the source's own annotation                   updateArg / updateReturn              (C13)

  and the type that comes out admits every value of `vs`, for every k, every rewriter configuration of the quantifier and
  every order / multiplicity in which the store returns the rows (`pipeline_sound`).  The last step, text — the rendered,
  module-stripped annotation evaluated with the names the stub provides — is covered for TypedDict-free emitted types
  (`pipeline_text_sound`, through C11's `rendered_denotes_partial`), which is every emitted type at the default size limit 0
  (`default_pipeline_text_sound`), and for every size limit with the generated classes of the stub as a class environment
  (`pipeline_text_sound_td`, through C11's `rendered_denotes`).
-/
import MTVerif.Props.C07
import MTVerif.Props.C08
import MTVerif.Props.C13
import MTVerif.Lemmas.Normal
import MTVerif.Lemmas.RewriteNoTD
import MTVerif.Props.C11
import MTVerif.Lemmas.Enforce
import MTVerif.Lemmas.FuncDef
namespace MT.C01
open MT MT.Anno

/-- the rewriter configurations of the quantifier: none (`--disable-type-rewriting` / NoOpRewriter), one shipped rewriter,
    the default chain -/
inductive RwCfg where
  | noop
  | single (r : RW)
  | default
  deriving Repr

def RwCfg.chain : RwCfg → List RW
  | .noop => []
  | .single r => [r]
  | .default => defaultChain

/-- what stub generation computes for one position from the types the store hands back
    (`shrink_traced_types` then `rewriter.rewrite`, stubs.py `get_updated_definition`) -/
def positionType (h : Hier) (cfg : RwCfg) (k : Nat) (ts : List Ty) : Ty := rewriteChain h cfg.chain (shrink k ts)

/-- rows → types, skipping what does not decode (`get_stub`'s loop, C10) -/
def decodeAll (env : Env) (rows : List Json) : List Ty := rows.filterMap (fun j => (decodeTy env j).toOption)

section
variable (h : Hier)
variable (htrans : ∀ a b c, h.sub a b = true → h.sub b c = true → h.sub a c = true)
variable (hbase : ∀ c b, h.bases c = [b] → h.sub c b = true) (hrefl : ∀ c, h.sub c c = true)
include htrans hbase hrefl

/-- every rewriter configuration: a tight member of the merged type is a member of the rewritten type -/
theorem chain_admits (cfg : RwCfg) (t : Ty) (v : Val) (hw : t.wf = true) (hc : conforms h.sub false t v = true) :
    conforms h.sub true (rewriteChain h cfg.chain t) v = true := by
  cases cfg with
  | noop => exact conforms_mono h.sub false true (fun _ => rfl) t v hc
  | single r => exact MT.C07.never_narrows h htrans hbase hrefl r t v hw hc
  | default => exact MT.C07.default_chain_never_narrows h htrans hbase hrefl t v hw hc

/-- merge + rewrite: whatever list of well-formed types reaches stub generation, a value that is a tight member of one of
    them is a member of the emitted type -/
theorem position_admits (cfg : RwCfg) (k : Nat) (ts : List Ty) (hw : ∀ t ∈ ts, t.wf = true) (v : Val)
    (hv : ∃ t ∈ ts, conforms h.sub false t v = true) : conforms h.sub true (positionType h cfg k ts) v = true :=
  chain_admits h htrans hbase hrefl cfg _ v (shrink_wf k ts hw) (MT.shrink_sound h.sub false hrefl k ts hw v hv)

/-- the types that reach stub generation may come in any order and multiplicity (sets in `shrink_traced_types`, the
    store's DISTINCT and ordering, several batches and processes): only membership matters -/
theorem position_sound (cfg : RwCfg) (k : Nat) (vs : List Val) (hwv : wfL vs = true) (ts : List Ty)
    (hts : ∀ t, t ∈ ts ↔ t ∈ getTypes k vs) : ∀ v ∈ vs, conforms h.sub true (positionType h cfg k ts) v = true := by
  intro v hv
  apply position_admits h htrans hbase hrefl cfg k ts
  · intro t ht; exact getTypes_wf k vs hwv t ((hts t).mp ht)
  · obtain ⟨t, ht, hc⟩ := getTypes_sound h.sub false hrefl k vs hwv v hv
    exact ⟨t, (hts t).mpr ht, hc⟩

end

/-- decoding the stored rows gives back exactly the logged types (each row decodes to the type it encodes) -/
theorem decodeAll_mem (env : Env) (nm : Names) (types : List Ty)
    (hs : ∀ t ∈ types, t.storable env nm = true ∧ t.normal = true) (rows : List Json)
    (hrows : ∀ j, j ∈ rows ↔ j ∈ types.map (encodeTy nm)) : ∀ t, t ∈ decodeAll env rows ↔ t ∈ types := by
  intro t
  simp only [decodeAll, List.mem_filterMap]
  constructor
  · rintro ⟨j, hj, hd⟩
    obtain ⟨t', ht', rfl⟩ := List.mem_map.mp ((hrows j).mp hj)
    rw [MT.C08.type_roundtrip env nm t' (hs t' ht').1 (hs t' ht').2] at hd
    simp only [Except.toOption, Option.some.injEq] at hd
    exact hd ▸ ht'
  · intro ht
    refine ⟨encodeTy nm t, (hrows _).mpr (List.mem_map.mpr ⟨t, ht, rfl⟩), ?_⟩
    rw [MT.C08.type_roundtrip env nm t (hs t ht).1 (hs t ht).2]
    rfl

/-- C01, one position, run → store → stub: for every collection of observed (well-formed) values, every TypedDict size limit,
    every rewriter configuration, and every list of stored rows that has exactly the encodings of the per-call types as its
    members — in any order, with any multiplicity — the type stub generation emits for the position admits every observed
    value. -/
theorem pipeline_sound (h : Hier)
    (htrans : ∀ a b c, h.sub a b = true → h.sub b c = true → h.sub a c = true)
    (hbase : ∀ c b, h.bases c = [b] → h.sub c b = true) (hrefl : ∀ c, h.sub c c = true)
    (env : Env) (nm : Names) (cfg : RwCfg) (k : Nat) (vs : List Val) (hwv : wfL vs = true)
    (hstor : ∀ t ∈ getTypes k vs, t.storable env nm = true)
    (rows : List Json) (hrows : ∀ j, j ∈ rows ↔ j ∈ (getTypes k vs).map (encodeTy nm)) :
    ∀ v ∈ vs, conforms h.sub true (positionType h cfg k (decodeAll env rows)) v = true :=
  position_sound h htrans hbase hrefl cfg k vs hwv _
    (decodeAll_mem env nm _ (fun t ht => ⟨hstor t ht, getTypes_normal k vs t ht⟩) rows hrows)

/-! ### … down to the text of the stub -/

open MT.Render in
/-- C01 with the last step included, for a position whose emitted type is TypedDict-free: the annotation *text* — rendered,
    module prefixes stripped — evaluated in any stub namespace in which each of its names denotes what was rendered
    (`namesOk`, the hypothesis of C11's `rendered_denotes_partial`) is a type that admits every observed value. -/
theorem pipeline_text_sound (h : Hier)
    (htrans : ∀ a b c, h.sub a b = true → h.sub b c = true → h.sub a c = true)
    (hbase : ∀ c b, h.bases c = [b] → h.sub c b = true) (hrefl : ∀ c, h.sub c c = true)
    (env : Env) (nm : Names) (cfg : RwCfg) (k : Nat) (vs : List Val) (hwv : wfL vs = true)
    (hstor : ∀ t ∈ getTypes k vs, t.storable env nm = true)
    (rows : List Json) (hrows : ∀ j, j ∈ rows ↔ j ∈ (getTypes k vs).map (encodeTy nm))
    (ns : NS) (mods : List (List String))
    (hnoTD : (positionType h cfg k (decodeAll env rows)).hasTD = false)
    (hnames : namesOk ns nm mods (positionType h cfg k (decodeAll env rows)) = true) :
    ∃ t', evalE ns (stripE mods (renderE nm (positionType h cfg k (decodeAll env rows)))) = some t' ∧
      ∀ v ∈ vs, conforms h.sub true t' v = true := by
  obtain ⟨t', he, hs⟩ := MT.C11.rendered_denotes_partial h.sub true ns nm mods _ hnoTD hnames
  refine ⟨t', he, fun v hv => ?_⟩
  rw [hs v]
  exact pipeline_sound h htrans hbase hrefl env nm cfg k vs hwv hstor rows hrows v hv

/-- `shrink_traced_types` first applies the size limit of the stub run to every stored type (`enforce k`, C06).  On the rows of
    this theorem's history — recorded under the same limit `k` — that is the identity, so `positionType` above is what the
    code computes. -/
theorem stub_time_limit_is_identity (env : Env) (nm : Names) (k : Nat) (vs : List Val)
    (hstor : ∀ t ∈ getTypes k vs, t.storable env nm = true)
    (rows : List Json) (hrows : ∀ j, j ∈ rows ↔ j ∈ (getTypes k vs).map (encodeTy nm)) :
    (decodeAll env rows).map (enforce k) = decodeAll env rows := by
  apply map_enforce_id
  intro t ht
  have hm := (decodeAll_mem env nm _ (fun t ht => ⟨hstor t ht, getTypes_normal k vs t ht⟩) rows hrows t).mp ht
  exact ⟨getTypes_tdOk k vs t hm, getTypes_normal k vs t hm⟩

/-- … and when the limits differ (traces recorded under any limits, stub generated at `k`): a value that is a tight member of
    one of the stored types is still a member of the emitted type -/
theorem position_admits_any_limit (h : Hier)
    (htrans : ∀ a b c, h.sub a b = true → h.sub b c = true → h.sub a c = true)
    (hbase : ∀ c b, h.bases c = [b] → h.sub c b = true) (hrefl : ∀ c, h.sub c c = true)
    (cfg : RwCfg) (k : Nat) (ts : List Ty) (hw : ∀ t ∈ ts, t.wf = true) (v : Val)
    (hv : ∃ t ∈ ts, conforms h.sub false t v = true) :
    conforms h.sub true (positionType h cfg k (ts.map (enforce k))) v = true := by
  apply position_admits h htrans hbase hrefl cfg k
  · intro t ht
    obtain ⟨u, hu, rfl⟩ := List.mem_map.mp ht
    exact enforce_wf k u (hw u hu)
  · obtain ⟨t, ht, hc⟩ := hv
    exact ⟨enforce k t, List.mem_map.mpr ⟨t, ht, rfl⟩, enforce_widens h.sub false hrefl k t v (hw t ht) hc⟩

theorem rewriteChain_wf (h : Hier) : ∀ (rs : List RW) (t : Ty), t.wf = true → (rewriteChain h rs t).wf = true
  | [], _, hw => hw
  | r :: rs, t, hw => by
      simp only [rewriteChain, List.foldl_cons]
      exact rewriteChain_wf h rs _ (MT.rewrite_wf h r t hw)

/-- the emitted type is well-formed (its TypedDicts have distinct keys) -/
theorem positionType_wf (h : Hier) (env : Env) (nm : Names) (cfg : RwCfg) (k : Nat) (vs : List Val) (hwv : wfL vs = true)
    (hstor : ∀ t ∈ getTypes k vs, t.storable env nm = true)
    (rows : List Json) (hrows : ∀ j, j ∈ rows ↔ j ∈ (getTypes k vs).map (encodeTy nm)) :
    (positionType h cfg k (decodeAll env rows)).wf = true := by
  unfold positionType
  apply rewriteChain_wf
  apply shrink_wf
  intro t ht
  exact getTypes_wf k vs hwv t
    ((decodeAll_mem env nm _ (fun t ht => ⟨hstor t ht, getTypes_normal k vs t ht⟩) rows hrows t).mp ht)

open MT.Render in
/-- C01 with the last step included, for every size limit: the annotation *text* of the position — anonymous TypedDicts replaced
    by references to generated classes (`renderT`), module prefixes stripped — evaluated in a stub namespace `ns` with class
    environment `cenv` in which every generated class of this annotation is what its name denotes (`ClassesIn`) and every other
    name denotes what was rendered (`namesOkT`) — the hypotheses of C11's `rendered_denotes` — is a type that admits every
    observed value. -/
theorem pipeline_text_sound_td (h : Hier)
    (htrans : ∀ a b c, h.sub a b = true → h.sub b c = true → h.sub a c = true)
    (hbase : ∀ c b, h.bases c = [b] → h.sub c b = true) (hrefl : ∀ c, h.sub c c = true)
    (env : Env) (nm : Names) (cfg : RwCfg) (k : Nat) (vs : List Val) (hwv : wfL vs = true)
    (hstor : ∀ t ∈ getTypes k vs, t.storable env nm = true)
    (rows : List Json) (hrows : ∀ j, j ∈ rows ↔ j ∈ (getTypes k vs).map (encodeTy nm))
    (ns : NS) (sm : Ty → List (List String)) (cenv : List ClassDef) (mods : List (List String)) (hint : String) (n : Nat)
    (hd : tdDepth (positionType h cfg k (decodeAll env rows)) ≤ n)
    (hcl : ClassesIn cenv (classesT nm sm hint (positionType h cfg k (decodeAll env rows))))
    (hnames : namesOkT ns (hasC cenv) nm sm mods (positionType h cfg k (decodeAll env rows)) = true) :
    ∃ t', evalT ns cenv n (stripE mods (renderT nm hint (positionType h cfg k (decodeAll env rows)))) = some t' ∧
      ∀ v ∈ vs, conforms h.sub true t' v = true := by
  obtain ⟨t', he, hs⟩ := MT.C11.rendered_denotes h.sub true ns nm sm cenv mods hint _ n hd
    (positionType_wf h env nm cfg k vs hwv hstor rows hrows) hcl hnames
  refine ⟨t', he, fun v hv => ?_⟩
  rw [hs v]
  exact pipeline_sound h htrans hbase hrefl env nm cfg k vs hwv hstor rows hrows v hv

/-- at the default `max_typed_dict_size` (0) the emitted type is always TypedDict-free, whatever the rewriter configuration -/
theorem default_limit_noTD (h : Hier) (env : Env) (nm : Names) (cfg : RwCfg) (vs : List Val)
    (hstor : ∀ t ∈ getTypes 0 vs, t.storable env nm = true)
    (rows : List Json) (hrows : ∀ j, j ∈ rows ↔ j ∈ (getTypes 0 vs).map (encodeTy nm)) :
    (positionType h cfg 0 (decodeAll env rows)).hasTD = false := by
  unfold positionType
  apply rewriteChain_noTD
  apply tdOk_zero
  apply shrink_tdOk
  intro t ht
  have := (decodeAll_mem env nm _ (fun t ht => ⟨hstor t ht, getTypes_normal 0 vs t ht⟩) rows hrows t).mp ht
  exact getTypes_tdOk 0 vs t this

/-- C01 in the default configuration, run → store → stub text: for every collection of well-formed observed values, every
    rewriter configuration and every order / multiplicity of the stored rows, the annotation text of the position, read in a
    namespace in which its names denote what was rendered, admits every observed value. -/
theorem default_pipeline_text_sound (h : Hier)
    (htrans : ∀ a b c, h.sub a b = true → h.sub b c = true → h.sub a c = true)
    (hbase : ∀ c b, h.bases c = [b] → h.sub c b = true) (hrefl : ∀ c, h.sub c c = true)
    (env : Env) (nm : Names) (cfg : RwCfg) (vs : List Val) (hwv : wfL vs = true)
    (hstor : ∀ t ∈ getTypes 0 vs, t.storable env nm = true)
    (rows : List Json) (hrows : ∀ j, j ∈ rows ↔ j ∈ (getTypes 0 vs).map (encodeTy nm))
    (ns : MT.Render.NS) (mods : List (List String))
    (hnames : MT.Render.namesOk ns nm mods (positionType h cfg 0 (decodeAll env rows)) = true) :
    ∃ t', MT.Render.evalE ns (MT.Render.stripE mods (MT.Render.renderE nm (positionType h cfg 0 (decodeAll env rows)))) = some t' ∧
      ∀ v ∈ vs, conforms h.sub true t' v = true :=
  pipeline_text_sound h htrans hbase hrefl env nm cfg 0 vs hwv hstor rows hrows ns mods
    (default_limit_noTD h env nm cfg vs hstor rows hrows) hnames

/-! ### what is emitted at the position (strategy flags) -/

/-- default flags and `--omit-existing-annotations` on an unannotated, non-receiver parameter, and
    `--ignore-existing-annotations` on any non-receiver parameter: the traced type is what is emitted -/
theorem emitted_is_traced (st : Strategy) (p : Pos) (t : Ty) (ht : p.traced = some t) (hs : p.isSelf = false)
    (h : p.src = none ∨ st = .ignore) : updateArg st p = some (.ty t) := by
  rcases h with h | h
  · cases st
    · exact MT.C13.replicate_fills p t h ht hs
    · exact MT.C13.ignore_overrides p t ht hs
    · exact MT.C13.omit_fills p t h ht hs
  · subst h; exact MT.C13.ignore_overrides p t ht hs

/-- the two components of a generator function's return annotation -/
def yieldPart : Ty → Option Ty
  | .iterator y => some y
  | .generator y _ _ => some y
  | _ => none

def returnPart : Ty → Ty
  | .iterator _ => noneTy
  | .generator _ _ r => r
  | t => t

/-- a generator function (some yield type traced): the emitted return annotation is `Iterator[Y]` or `Generator[Y, None, R]`
    whose yield component is the traced yield type and whose return component admits whatever the traced return type
    admits (an absent return type imposes nothing) -/
theorem generator_annotation (sub : ClassId → ClassId → Bool) (ao : Bool) (st : Strategy) (src : Option Nat) (y : Ty) (r : Option Ty)
    (hsrc : src = none ∨ st = .ignore) :
    ∃ a, updateReturn st src r (some y) = some (.ty a) ∧ yieldPart a = some y ∧
      ∀ r', r = some r' → ∀ v, conforms sub ao r' v = true → conforms sub ao (returnPart a) v = true := by
  have hpre : updateReturn st src r (some y) =
      (match r with
       | none => some (.ty (.iterator y))
       | some r => if Ty.eqv r noneTy then some (.ty (.iterator y)) else some (.ty (.generator y noneTy r))) := by
    rcases hsrc with h | h
    · subst h; cases st <;> cases r <;> simp [updateReturn]
    · subst h; cases src <;> cases r <;> simp [updateReturn]
  rw [hpre]
  cases r with
  | none => exact ⟨_, rfl, rfl, by intro r' hr'; cases hr'⟩
  | some r0 =>
    by_cases he : Ty.eqv r0 noneTy = true
    · refine ⟨.iterator y, by simp [he], rfl, ?_⟩
      intro r' hr' v hc
      cases hr'
      exact (Ty.eqv_sound sub ao r0 noneTy he (by decide) v).mp hc
    · refine ⟨.generator y noneTy r0, by simp [he], rfl, ?_⟩
      intro r' hr' v hc
      cases hr'
      exact hc

/-- an ordinary function: the emitted return annotation is the traced return type -/
theorem plain_annotation (st : Strategy) (src : Option Nat) (r : Ty) (hsrc : src = none ∨ st = .ignore) :
    updateReturn st src (some r) none = some (.ty r) := MT.C13.plain_return st src r hsrc


/-! ### one function, all its traces: `get_updated_definition` (Model/FuncDef)

The theorems above speak about one position whose stored types are given.  `shrink_traced_types` is what finds those types: it
walks all decoded traces of the function, files every argument type under its parameter name, applies the size limit of this run
and merges.  The statements below are about the definition that comes out, for any number of traces with any argument names. -/

section
open MT.FuncDef
variable (h : Hier)
variable (htrans : ∀ a b c, h.sub a b = true → h.sub b c = true → h.sub a c = true)
variable (hbase : ∀ c b, h.bases c = [b] → h.sub c b = true) (hrefl : ∀ c, h.sub c c = true)

/-- the entry of the definition for the parameter at index `i` -/
theorem definition_param (chain : List RW) (k : Nat) (st : Strategy) (f : FuncSrc) (traces : List CTrace)
    (i : Nat) (p : SrcParam) (hp : f.params[i]? = some p) :
    (updatedDefinition h chain k st f traces).params[i]? =
      some (p.name, updateArg st (posOf f ((shrinkTraced k traces).1.map (fun nt => (nt.1, rewriteChain h chain nt.2))) p i)) := by
  simp [updatedDefinition, List.getElem?_zipIdx, hp]

include htrans hbase hrefl in
/-- C01 for a parameter of a whole function: whatever traces of the function the store returned — any number, any order, each
    with its own set of argument names, recorded under any size limits — a parameter that is not the receiver, is unannotated
    in the source (or annotations are being ignored) and occurs in at least one trace is annotated with a type that admits
    every value that was a (tight) member of the type recorded for it in any of the traces. -/
theorem definition_arg_sound (cfg : RwCfg) (k : Nat) (st : Strategy) (f : FuncSrc) (traces : List CTrace)
    (hw : ∀ tr ∈ traces, ∀ a ∈ tr.args, a.2.wf = true)
    (i : Nat) (p : SrcParam) (hp : f.params[i]? = some p)
    (hrecv : (f.kind.hasSelf && i == 0) = false) (hfree : p.src = none ∨ st = .ignore)
    (tr : CTrace) (htr : tr ∈ traces) (t0 : Ty) (ht0 : (p.name, t0) ∈ tr.args) :
    ∃ T, (updatedDefinition h cfg.chain k st f traces).params[i]? = some (p.name, some (.ty T)) ∧
      ∀ v, conforms h.sub false t0 v = true → conforms h.sub true T v = true := by
  have hmem : enforce k t0 ∈ typesFor p.name (allArgs k traces) :=
    (mem_typesFor_allArgs k traces p.name _).mpr ⟨tr, htr, t0, ht0, rfl⟩
  have hne : typesFor p.name (allArgs k traces) ≠ [] := List.ne_nil_of_mem hmem
  refine ⟨positionType h cfg k (typesFor p.name (allArgs k traces)), ?_, ?_⟩
  · rw [definition_param h cfg.chain k st f traces i p hp]
    have hl : ((shrinkTraced k traces).1.map (fun nt => (nt.1, rewriteChain h cfg.chain nt.2))).lookup p.name =
        some (positionType h cfg k (typesFor p.name (allArgs k traces))) := by
      rw [lookup_mapSnd (rewriteChain h cfg.chain) p.name (shrinkTraced k traces).1, lookup_shrinkTraced]
      simp [hne, positionType]
    have := emitted_is_traced st (posOf f ((shrinkTraced k traces).1.map (fun nt => (nt.1, rewriteChain h cfg.chain nt.2))) p i)
      (positionType h cfg k (typesFor p.name (allArgs k traces))) (by simpa [posOf] using hl) (by simpa [posOf] using hrecv)
      (by simpa [posOf] using hfree)
    rw [this]
  · intro v hv
    apply position_admits h htrans hbase hrefl cfg k
    · intro t ht
      obtain ⟨tr', htr', t1, ht1, rfl⟩ := (mem_typesFor_allArgs k traces p.name t).mp ht
      exact enforce_wf k t1 (hw tr' htr' _ ht1)
    · exact ⟨enforce k t0, hmem, enforce_widens h.sub false hrefl k t0 v (hw tr htr _ ht0) hv⟩

/-- … and nothing is invented: a parameter without a source annotation that occurs in no trace has no annotation, under every
    strategy and every rewriter -/
theorem definition_untraced_param (chain : List RW) (k : Nat) (st : Strategy) (f : FuncSrc) (traces : List CTrace)
    (i : Nat) (p : SrcParam) (hp : f.params[i]? = some p) (hsrc : p.src = none)
    (hno : ∀ tr ∈ traces, ∀ a ∈ tr.args, a.1 ≠ p.name) :
    (updatedDefinition h chain k st f traces).params[i]? = some (p.name, none) := by
  rw [definition_param h chain k st f traces i p hp]
  have hnil : typesFor p.name (allArgs k traces) = [] := by
    apply List.eq_nil_iff_forall_not_mem.mpr
    intro t ht
    obtain ⟨tr, htr, t0, ht0, _⟩ := (mem_typesFor_allArgs k traces p.name t).mp ht
    exact hno tr htr _ ht0 rfl
  have hl : ((shrinkTraced k traces).1.map (fun nt => (nt.1, rewriteChain h chain nt.2))).lookup p.name = none := by
    rw [lookup_mapSnd (rewriteChain h chain) p.name (shrinkTraced k traces).1, lookup_shrinkTraced]
    simp [hnil]
  rw [MT.C13.never_invented st _ (by simpa [posOf] using hsrc) (by simpa [posOf] using hl)]

include htrans hbase hrefl in
/-- C01 for the yield position of a whole function: if any trace has a yield type and the return position is unannotated in
    the source (or annotations are ignored), the return annotation is `Iterator[Y]` or `Generator[Y, None, R]` and `Y` admits
    every (tight) member of the yield type of every trace. -/
theorem definition_yield_sound (cfg : RwCfg) (k : Nat) (st : Strategy) (f : FuncSrc) (traces : List CTrace)
    (hw : ∀ tr ∈ traces, ∀ t, tr.yld = some t → t.wf = true)
    (hfree : f.retSrc = none ∨ st = .ignore)
    (tr : CTrace) (htr : tr ∈ traces) (y0 : Ty) (hy0 : tr.yld = some y0) :
    ∃ a Y, (updatedDefinition h cfg.chain k st f traces).ret = some (.ty a) ∧ yieldPart a = some Y ∧
      ∀ v, conforms h.sub false y0 v = true → conforms h.sub true Y v = true := by
  have hmem : enforce k y0 ∈ yldTypes k traces := (mem_yldTypes k traces _).mpr ⟨tr, htr, y0, hy0, rfl⟩
  have hne : (yldTypes k traces).isEmpty = false := by
    cases hq : yldTypes k traces with
    | nil => rw [hq] at hmem; cases hmem
    | cons _ _ => rfl
  obtain ⟨a, ha, hy, _⟩ := generator_annotation h.sub true st f.retSrc (positionType h cfg k (yldTypes k traces))
    ((shrinkOpt k (retTypes k traces)).map (rewriteChain h cfg.chain)) hfree
  refine ⟨a, positionType h cfg k (yldTypes k traces), ?_, hy, ?_⟩
  · simp only [updatedDefinition, shrinkTraced, shrinkOpt, hne]
    simpa [positionType, shrinkOpt] using ha
  · intro v hv
    apply position_admits h htrans hbase hrefl cfg k
    · intro t ht
      obtain ⟨tr', htr', t1, ht1, rfl⟩ := (mem_yldTypes k traces t).mp ht
      exact enforce_wf k t1 (hw tr' htr' t1 ht1)
    · exact ⟨enforce k y0, hmem, enforce_widens h.sub false hrefl k y0 v (hw tr htr y0 hy0) hv⟩

include htrans hbase hrefl in
/-- C01 for the return position of an ordinary function (no trace has a yield type): the return annotation is a type that
    admits every (tight) member of the return type of every trace. -/
theorem definition_return_sound (cfg : RwCfg) (k : Nat) (st : Strategy) (f : FuncSrc) (traces : List CTrace)
    (hw : ∀ tr ∈ traces, ∀ t, tr.ret = some t → t.wf = true)
    (hfree : f.retSrc = none ∨ st = .ignore) (hnoy : ∀ tr ∈ traces, tr.yld = none)
    (tr : CTrace) (htr : tr ∈ traces) (r0 : Ty) (hr0 : tr.ret = some r0) :
    ∃ R, (updatedDefinition h cfg.chain k st f traces).ret = some (.ty R) ∧
      ∀ v, conforms h.sub false r0 v = true → conforms h.sub true R v = true := by
  have hmem : enforce k r0 ∈ retTypes k traces := (mem_retTypes k traces _).mpr ⟨tr, htr, r0, hr0, rfl⟩
  have hne : (retTypes k traces).isEmpty = false := by
    cases hq : retTypes k traces with
    | nil => rw [hq] at hmem; cases hmem
    | cons _ _ => rfl
  have hy : yldTypes k traces = [] := by
    apply List.eq_nil_iff_forall_not_mem.mpr
    intro t ht
    obtain ⟨tr', htr', t1, ht1, _⟩ := (mem_yldTypes k traces t).mp ht
    rw [hnoy tr' htr'] at ht1
    cases ht1
  refine ⟨positionType h cfg k (retTypes k traces), ?_, ?_⟩
  · simp only [updatedDefinition, shrinkTraced, shrinkOpt, hne, hy]
    simpa [positionType] using plain_annotation st f.retSrc (rewriteChain h cfg.chain (shrink k (retTypes k traces))) hfree
  · intro v hv
    apply position_admits h htrans hbase hrefl cfg k
    · intro t ht
      obtain ⟨tr', htr', t1, ht1, rfl⟩ := (mem_retTypes k traces t).mp ht
      exact enforce_wf k t1 (hw tr' htr' t1 ht1)
    · exact ⟨enforce k r0, hmem, enforce_widens h.sub false hrefl k r0 v (hw tr htr r0 hr0) hv⟩

end

/-! ### non-vacuity: the counter-example of the property text, `f([])` and `f(None)`, in the model -/

def demoHier : Hier := MT.C07.demoHier

/-- `f([])`, `f(None)` with the default rewriters: the emitted type admits both values (it is `Optional[List[Any]]`, not `None`) -/
example : Ty.beq' (positionType demoHier .default 0 (getTypes 0 [.list [], .inst noneC])) (.union [.list .any, .cls noneC]) = true := by
  decide +kernel

example : conforms demoHier.sub true (positionType demoHier .default 0 (getTypes 0 [.list [], .inst noneC])) (.list []) = true := by
  decide +kernel

end MT.C01
