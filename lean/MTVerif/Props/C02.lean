/-
  Props/C02.lean — C02: every completed call yields exactly one faithful call trace.

  Proved for the tracer's bookkeeping (the state machine of Model/Tracer.lean) for all event histories:
  * locality: what the tracer does for one frame does not depend on the events of any other frame, however the frames
    are nested or interleaved (`frame_locality`);
  * lifecycle: a frame that is called, suspends any number of times (yields / awaits) and finishes by returning or raising
    is logged exactly once, with the argument types of its *call* event, the union of exactly its yielded types (none for
    a coroutine's awaits), the return type iff it returned, and leaves no per-call state (`lifecycle_logged_once`);
  * composition: both together, for every frame of any history (`interleaved_frame_logged_once`).
  Not proved (CPython's, observed): that a program's calls produce such event streams, and the opcode / flag classification.
-/
import MTVerif.Model.Tracer
namespace MT.C02
open MT MT.Tracer

/-- events of code the filter rejects never change the tracer -/
theorem rejected_code_ignored (cfg : Cfg) (s : State) (e : Ev) (h : cfg.admits e.code = false) : step cfg s e = s := by
  cases e <;> simp [step, Ev.code] at h ⊢ <;> simp [h]

/-! ### association-list facts -/

theorem lookupT_eraseT_self (fid : FrameId) (m : List (FrameId × PTrace)) : lookupT fid (eraseT fid m) = none := by
  induction m with
  | nil => rfl
  | cons x m ih =>
    obtain ⟨f, t⟩ := x
    simp only [eraseT]
    split
    · exact ih
    · next h => simp only [lookupT, h]; exact ih

theorem lookupT_eraseT_ne (fid g : FrameId) (h : g ≠ fid) (m : List (FrameId × PTrace)) :
    lookupT fid (eraseT g m) = lookupT fid m := by
  induction m with
  | nil => rfl
  | cons x m ih =>
    obtain ⟨f, t⟩ := x
    simp only [eraseT]
    split
    · next hf =>
      have : f = g := by simpa using hf
      subst this
      simp only [lookupT]
      have : (f == fid) = false := by simpa using h
      simp [this, ih]
    · simp only [lookupT, ih]

theorem lookupT_setT_self (fid : FrameId) (t : PTrace) (m : List (FrameId × PTrace)) : lookupT fid (setT fid t m) = some t := by
  simp [setT, lookupT]

theorem lookupT_setT_ne (fid g : FrameId) (h : g ≠ fid) (t : PTrace) (m : List (FrameId × PTrace)) :
    lookupT fid (setT g t m) = lookupT fid m := by
  have : (g == fid) = false := by simpa using h
  simp [setT, lookupT, this, lookupT_eraseT_ne fid g h]

/-! ### locality -/

/-- the part of the state that concerns frame `fid` -/
def view (fid : FrameId) (s : State) : Option PTrace × List (FrameId × PTrace) :=
  (lookupT fid s.traces, s.log.filter (fun x => x.1 == fid))

theorem view_draws (fid : FrameId) (s : State) (d : List Nat) : view fid { s with draws := d } = view fid s := rfl

theorem beginTrace_other (cfg : Cfg) (fid g : FrameId) (h : g ≠ fid) (s : State) (c : CodeId) (a : List (String × Ty)) :
    view fid (beginTrace cfg s g c a) = view fid s := by
  unfold beginTrace
  split
  · rfl
  · split
    · rfl
    · simp only [view, lookupT_setT_ne fid g h]

theorem beginTrace_same (cfg : Cfg) (fid : FrameId) (s s' : State) (c : CodeId) (a : List (String × Ty))
    (hv : view fid s = view fid s') : view fid (beginTrace cfg s fid c a) = view fid (beginTrace cfg s' fid c a) := by
  simp only [view, Prod.mk.injEq] at hv
  unfold beginTrace
  split
  · simp only [view, hv.1, hv.2]
  · rw [hv.1]
    split
    · simp only [view, hv.1, hv.2]
    · simp only [view, lookupT_setT_self, hv.2]

theorem endEvent_other (fid g : FrameId) (h : g ≠ fid) (s : State) (t : PTrace) (op : Op) (co : Bool) (ty : Ty) :
    view fid (endEvent s g t op co ty) = view fid s := by
  have hne : (g == fid) = false := by simpa using h
  unfold endEvent
  split
  · split
    · rfl
    · simp only [view, lookupT_setT_ne fid g h]
  · simp only [view, lookupT_eraseT_ne fid g h, List.filter_append, List.filter_cons, hne, List.filter_nil,
      List.append_nil, Bool.false_eq_true, ↓reduceIte]

theorem endEvent_same (fid : FrameId) (s s' : State) (t : PTrace) (op : Op) (co : Bool) (ty : Ty)
    (hv : view fid s = view fid s') : view fid (endEvent s fid t op co ty) = view fid (endEvent s' fid t op co ty) := by
  simp only [view, Prod.mk.injEq] at hv
  unfold endEvent
  split
  · split
    · simp only [view, hv.1, hv.2]
    · simp only [view, lookupT_setT_self, hv.2]
  · simp only [view, lookupT_eraseT_self, List.filter_append, hv.2]

/-- an event of another frame does not touch frame `fid`'s entry nor the traces logged for it -/
theorem step_other_frame (cfg : Cfg) (fid : FrameId) (s : State) (e : Ev) (h : e.fid ≠ fid) :
    view fid (step cfg s e) = view fid s := by
  cases e with
  | other f c => rfl
  | call f c r a =>
    simp only [Ev.fid] at h
    simp only [step]
    split
    · rfl
    · split
      · rfl
      · split
        · rfl
        · rw [beginTrace_other cfg fid f h]; rfl
  | ret f c op co sm ty =>
    simp only [Ev.fid] at h
    simp only [step]
    split
    · rfl
    · split
      · rfl
      · exact endEvent_other fid f h s _ op co ty

/-- without sampling, an event of frame `fid` acts on frame `fid`'s view only through that view -/
theorem step_same_frame (cfg : Cfg) (hr : cfg.rate = none) (fid : FrameId) (s s' : State) (e : Ev) (h : e.fid = fid)
    (hv : view fid s = view fid s') : view fid (step cfg s e) = view fid (step cfg s' e) := by
  cases e with
  | other f c => exact hv
  | call f c r a =>
    simp only [Ev.fid] at h; subst h
    simp only [step, hr, sampleDraw]
    split
    · exact hv
    · split
      · exact hv
      · simp only [Bool.false_eq_true, ↓reduceIte]
        exact beginTrace_same cfg f _ _ c a hv
  | ret f c op co sm ty =>
    simp only [Ev.fid] at h; subst h
    have hl : lookupT f s.traces = lookupT f s'.traces := by
      simp only [view, Prod.mk.injEq] at hv; exact hv.1
    simp only [step]
    split
    · exact hv
    · rw [hl]
      split
      · exact hv
      · exact endEvent_same f s s' _ op co ty hv

/-- C02, "all nesting orders and interleavings": what is recorded for a frame is what would be recorded if that frame's
    events were the only ones — for every history, with any other frames' events interleaved anywhere. -/
theorem frame_locality (cfg : Cfg) (hr : cfg.rate = none) (fid : FrameId) (es : List Ev) :
    ∀ s s' : State, view fid s = view fid s' →
      view fid (es.foldl (step cfg) s) = view fid ((es.filter (fun e => e.fid == fid)).foldl (step cfg) s') := by
  induction es with
  | nil => intro s s' h; exact h
  | cons e es ih =>
    intro s s' h
    simp only [List.foldl_cons, List.filter_cons]
    by_cases he : e.fid = fid
    · have : (e.fid == fid) = true := by simpa using he
      simp only [this, ↓reduceIte, List.foldl_cons]
      exact ih _ _ (step_same_frame cfg hr fid s s' e he h)
    · have : (e.fid == fid) = false := by simpa using he
      simp only [this, Bool.false_eq_true, ↓reduceIte]
      exact ih _ _ ((step_other_frame cfg fid s e he).trans h)

/-! ### one frame's life -/

/-- a suspension of the frame (a `return` event with YIELD_VALUE) followed by its resumption -/
def suspension (fid : FrameId) (c : CodeId) (coro : Bool) (ty : Ty) (args' : List (String × Ty)) : List Ev :=
  [.ret fid c .yieldValue coro (if coro then .awaited else .yielded) ty, .call fid c true args']

/-- call, any number of suspensions, final return / raise -/
def lifecycle (fid : FrameId) (c : CodeId) (coro : Bool) (args : List (String × Ty))
    (susp : List (Ty × List (String × Ty))) (finOp : Op) (finSem : Sem) (finTy : Ty) : List Ev :=
  .call fid c false args :: (susp.flatMap (fun x => suspension fid c coro x.1 x.2)) ++ [.ret fid c finOp coro finSem finTy]

/-- the union of the yielded types, built the way `add_yield_type` builds it -/
def yieldsOf (coro : Bool) : Option Ty → List (Ty × List (String × Ty)) → Option Ty
  | acc, [] => acc
  | acc, (ty, _) :: rest =>
      if coro then yieldsOf coro acc rest
      else yieldsOf coro (some (match acc with | none => ty | some y => mkUnion [y, ty])) rest

theorem susp_fold (cfg : Cfg) (fid : FrameId) (c : CodeId) (coro : Bool) (hadm : cfg.admits c = true)
    (susp : List (Ty × List (String × Ty))) :
    ∀ (s : State) (t : PTrace), lookupT fid s.traces = some t →
      ∃ s', (susp.flatMap (fun x => suspension fid c coro x.1 x.2)).foldl (step cfg) s = s' ∧
        lookupT fid s'.traces = some { t with yld := yieldsOf coro t.yld susp } ∧
        s'.log = s.log := by
  induction susp with
  | nil => intro s t h; exact ⟨s, rfl, by simpa [yieldsOf] using h, rfl⟩
  | cons x rest ih =>
    intro s t h
    obtain ⟨ty, args'⟩ := x
    simp only [List.flatMap_cons, suspension, List.cons_append, List.nil_append, List.foldl_cons]
    -- the yield event
    have h1 : step cfg s (.ret fid c .yieldValue coro (if coro then .awaited else .yielded) ty) =
        (if coro then s else { s with traces := setT fid (addYield t ty) s.traces }) := by
      simp [step, hadm, h, endEvent]
    rw [h1]
    cases coro with
    | true =>
      simp only [↓reduceIte]
      have h2 : step cfg s (.call fid c true args') = s := by simp [step, hadm]
      rw [h2]
      obtain ⟨s', hs', hl, hlog⟩ := ih s t h
      exact ⟨s', hs', by simpa [yieldsOf] using hl, hlog⟩
    | false =>
      simp only [Bool.false_eq_true, ↓reduceIte]
      have h2 : ∀ s0 : State, step cfg s0 (.call fid c true args') = s0 := by intro s0; simp [step, hadm]
      rw [h2]
      obtain ⟨s', hs', hl, hlog⟩ := ih { s with traces := setT fid (addYield t ty) s.traces } (addYield t ty)
        (lookupT_setT_self fid _ _)
      refine ⟨s', hs', ?_, hlog⟩
      rw [hl]; rfl

/-- C02 for one frame: a resolvable, admitted call that suspends any number of times and then finishes is logged exactly
    once, with the argument types of its call event, the union of exactly the types it yielded (nothing for a coroutine's
    awaits), its return type iff it returned (absent iff it raised), and afterwards the tracer holds nothing for it. -/
theorem lifecycle_logged_once (cfg : Cfg) (hr : cfg.rate = none) (fid : FrameId) (c : CodeId) (f : FuncId) (coro : Bool)
    (hadm : cfg.admits c = true) (hres : cfg.resolve c = some f)
    (args : List (String × Ty)) (susp : List (Ty × List (String × Ty))) (finOp : Op) (finSem : Sem) (finTy : Ty)
    (hfin : finOp ≠ .yieldValue) (s : State) (hfresh : lookupT fid s.traces = none) :
    let s' := (lifecycle fid c coro args susp finOp finSem finTy).foldl (step cfg) s
    s'.log = s.log ++ [(fid, { func := f, args := args,
                               ret := if finOp = .retValue ∨ finOp = .retConst then some finTy else none,
                               yld := yieldsOf coro none susp })] ∧
    lookupT fid s'.traces = none := by
  simp only [lifecycle, List.cons_append, List.foldl_cons, List.foldl_append, List.foldl_nil]
  -- the call event creates the entry
  have h0 : lookupT fid (step cfg s (.call fid c false args)).traces =
      some { func := f, args := args, ret := none, yld := none } ∧ (step cfg s (.call fid c false args)).log = s.log := by
    simp [step, hadm, hr, hres, hfresh, lookupT_setT_self, sampleDraw, beginTrace]
  obtain ⟨s1, hs1, hl1, hlog1⟩ := susp_fold cfg fid c coro hadm susp _ _ h0.1
  rw [hs1]
  have hy : (finOp == Op.yieldValue) = false := by simpa using hfin
  have hstep : step cfg s1 (.ret fid c finOp coro finSem finTy) =
      endEvent s1 fid { func := f, args := args, ret := none, yld := yieldsOf coro none susp } finOp coro finTy := by
    simp only [step, hadm, Bool.not_true, Bool.false_eq_true, ↓reduceIte, hl1]
  rw [hstep]
  simp only [endEvent, hy, Bool.false_eq_true, ↓reduceIte, lookupT_eraseT_self, and_true, hlog1, h0.2]
  congr 2
  by_cases h1 : finOp = .retValue
  · simp [h1]
  · by_cases h2 : finOp = .retConst
    · simp [h2]
    · simp [h1, h2]

/-- C02 for every frame of every history: if the events of frame `fid`, wherever they sit among the events of other
    frames, form one life (call, suspensions, finish), then exactly one trace is logged for it, faithful as above, and
    the tracer keeps no state for it. -/
theorem interleaved_frame_logged_once (cfg : Cfg) (hr : cfg.rate = none) (fid : FrameId) (c : CodeId) (f : FuncId)
    (coro : Bool) (hadm : cfg.admits c = true) (hres : cfg.resolve c = some f)
    (args : List (String × Ty)) (susp : List (Ty × List (String × Ty))) (finOp : Op) (finSem : Sem) (finTy : Ty)
    (hfin : finOp ≠ .yieldValue) (es : List Ev) (draws : List Nat)
    (hlife : es.filter (fun e => e.fid == fid) = lifecycle fid c coro args susp finOp finSem finTy) :
    (run cfg draws es).log.filter (fun x => x.1 == fid) =
      [(fid, { func := f, args := args,
               ret := if finOp = .retValue ∨ finOp = .retConst then some finTy else none,
               yld := yieldsOf coro none susp })] ∧
    lookupT fid (run cfg draws es).traces = none := by
  have hloc := frame_locality cfg hr fid es { traces := [], log := [], draws := draws } { traces := [], log := [], draws := draws } rfl
  rw [hlife] at hloc
  have hone := lifecycle_logged_once cfg hr fid c f coro hadm hres args susp finOp finSem finTy hfin
    { traces := [], log := [], draws := draws } rfl
  simp only [view, Prod.mk.injEq] at hloc
  simp only [run]
  rw [hloc.1, hloc.2, hone.1, hone.2]
  simp

/-! ### order of completion -/

/-- the frame an event finishes: a `return` event whose last opcode is not YIELD_VALUE (a return, or the unwinding of a raise) -/
def finishes : Ev → Option FrameId
  | .ret fid _ op _ _ _ => if op == .yieldValue then none else some fid
  | _ => none

/-- one event logs at most one trace, for its own frame, at the end of the log, and only if it finishes that frame -/
theorem step_log (cfg : Cfg) (s : State) (e : Ev) :
    (step cfg s e).log = s.log ∨ ∃ t, finishes e = some e.fid ∧ (step cfg s e).log = s.log ++ [(e.fid, t)] := by
  cases e with
  | other f c => exact Or.inl rfl
  | call f c r a =>
    left
    simp only [step]
    split
    · rfl
    · split
      · rfl
      · split
        · rfl
        · simp only [beginTrace]
          split
          · rfl
          · split <;> rfl
  | ret f c op co sm ty =>
    simp only [step]
    split
    · exact Or.inl rfl
    · split
      · exact Or.inl rfl
      · next t _ =>
        simp only [endEvent]
        by_cases hy : op = .yieldValue
        · left; subst hy; simp only [beq_self_eq_true, ↓reduceIte]; split <;> rfl
        · right
          have hy' : (op == Op.yieldValue) = false := by simpa using hy
          exact ⟨if op == .retValue || op == .retConst then { t with ret := some ty } else t,
            by simp [finishes, hy', Ev.fid], by simp [hy', Ev.fid]⟩

theorem foldl_log_order (cfg : Cfg) (es : List Ev) : ∀ s : State,
    ∃ l, ((es.foldl (step cfg) s).log.map Prod.fst) = s.log.map Prod.fst ++ l ∧ l.Sublist (es.filterMap finishes) := by
  induction es with
  | nil => intro s; exact ⟨[], by simp, List.Sublist.refl _⟩
  | cons e es ih =>
    intro s
    obtain ⟨l, hl, hsub⟩ := ih (step cfg s e)
    rcases step_log cfg s e with h | ⟨t, hf, h⟩
    · refine ⟨l, by simp only [List.foldl_cons, hl, h], ?_⟩
      simp only [List.filterMap_cons]
      split
      · exact hsub
      · exact hsub.cons _
    · refine ⟨e.fid :: l, by simp only [List.foldl_cons, hl, h, List.map_append, List.map_cons, List.map_nil, List.append_assoc,
        List.singleton_append], ?_⟩
      simp only [List.filterMap_cons, hf]
      exact hsub.cons_cons _

/-- C02, "in order of completion": the traces are logged in the order in which their calls finished — the frames of the log
    are a subsequence of the frames of the finishing events of the history, in that order; nothing is ever logged at a call,
    a yield or an await, and nothing is re-ordered or removed afterwards (the log only grows at its end). -/
theorem log_in_completion_order (cfg : Cfg) (draws : List Nat) (es : List Ev) :
    ((run cfg draws es).log.map Prod.fst).Sublist (es.filterMap finishes) := by
  obtain ⟨l, hl, hsub⟩ := foldl_log_order cfg es { traces := [], log := [], draws := draws }
  simp only [run, hl, List.map_nil, List.nil_append]
  exact hsub

/-! non-vacuity: a generator interleaved with a plain call -/
example : (lifecycle 1 7 false [("a", .cls intC)] [(.cls intC, [("a", .cls strC)]), (.cls strC, [("a", .cls strC)])]
    .retConst .returned (.cls noneC)).length = 6 := by decide

end MT.C02
