import MTVerif.Model.Tracer
namespace MT.C02
open MT MT.Tracer

/-- events of code the filter rejects never change the tracer -/
theorem rejected_code_ignored (cfg : Cfg) (s : State) (e : Ev) (h : cfg.admits e.code = false) : step cfg s e = s := by
  cases e <;> simp [step, Ev.code] at h ⊢ <;> simp [h]

end MT.C02
