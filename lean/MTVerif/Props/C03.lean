/-
  Props/C03.lean — C03: tracing never changes what the traced program does.

  Lean covers the two channels through which the tracer could reach the program: (1) which operations type collection
  applies to the program's objects, (2) exception propagation out of the profiler callback and out of `trace_calls`.
  "Same results / exceptions / output with and without tracing" for arbitrary programs is CPython executing a program:
  it is observed (differential runs of tripwire workloads), not proved.
-/
import MTVerif.Model.Contain
import MTVerif.Props.C02
namespace MT.C03
open MT MT.Tracer MT.Contain

/-- a failure (an `Exception`) inside type collection, function lookup or the logger never leaves the profiler callback -/
theorem callback_never_raises_exception (cfg : Cfg) (s : State) (fl : Faults) (e : Ev) :
    (tracerCall cfg s fl e).2 ≠ .exc := by
  simp only [tracerCall]
  cases h : (handler cfg s fl e).2 <;> simp [guarded]

/-- … and without a non-Exception BaseException it ends normally -/
theorem callback_ok (cfg : Cfg) (s : State) (fl : Faults) (e : Ev) : (tracerCall cfg s fl e).2 = .ok := by
  have hne : (handler cfg s fl e).2 ≠ .baseExc := by
    cases e with
    | other f c => simp [handler]
    | call f c r a =>
      simp only [handler]
      repeat (first | split | simp)
    | ret f c op co sm ty =>
      simp only [handler]
      repeat (first | split | simp)
  simp only [tracerCall]
  cases h : (handler cfg s fl e).2 <;> simp_all [guarded]

/-- without faults the guarded callback is exactly the tracer of C02 -/
theorem no_faults_is_step (cfg : Cfg) (s : State) (e : Ev) : (tracerCall cfg s {} e).1 = step cfg s e := by
  cases e with
  | other f c => rfl
  | call f c r a =>
    simp only [tracerCall, handler, step, beginTrace]
    repeat (first | split | rfl | simp_all)
  | ret f c op co sm ty =>
    simp only [tracerCall, handler, step]
    repeat (first | split | rfl | simp_all)

/-- when `logger.log` fails the per-call entry is already gone: the state stays consistent (the trace is lost, not stuck) -/
theorem log_failure_leaves_no_entry (cfg : Cfg) (s : State) (fid : FrameId) (c : CodeId) (op : Op) (co : Bool) (sm : Sem)
    (ty : Ty) (t : PTrace) (hadm : cfg.admits c = true) (hl : lookupT fid s.traces = some t) (hop : op ≠ .yieldValue) :
    lookupT fid (tracerCall cfg s { log := true } (.ret fid c op co sm ty)).1.traces = none := by
  have : (op == Op.yieldValue) = false := by simpa using hop
  simp [tracerCall, handler, hadm, hl, this, MT.C02.lookupT_eraseT_self fid s.traces]

/-- the tracing context: whatever the body and `flush()` do (short of a non-Exception BaseException from flush), on
    exit the previously installed profiler is back, the logger has been flushed exactly once more, and the program's
    own outcome — its result or its exception — is what leaves the block -/
theorem context_restores_and_flushes_once (w : World) (tracer : Nat) (body flush : Outcome) (hf : flush ≠ .baseExc) :
    (traceCalls w tracer body flush).1.profiler = w.profiler ∧
    (traceCalls w tracer body flush).1.flushes = w.flushes + 1 ∧
    (traceCalls w tracer body flush).2 = body := by
  cases flush <;> simp_all [traceCalls, guarded]

/-- `type(obj)`, a walk of an *exact* builtin container — or the one operation that can reach user code: the hash of a class
    object (typing's cache; user code only if the metaclass defines `__hash__`: open finding KF-C03-metaclass-hash) -/
def SafeProbe (op : Val × Probe) : Prop :=
  op.2 = .typeOf ∨ isExact op.1 = true ∨ (op.2 = .hashClass ∧ ∃ c, op.1 = .classObj c)

mutual
theorem probes_safe : ∀ v : Val, ∀ op ∈ probes v, SafeProbe op
  | .inst c, op, h => by simp [probes] at h; subst h; exact Or.inl rfl
  | .str s, op, h => by simp [probes] at h; subst h; exact Or.inl rfl
  | .classObj c, op, h => by
      simp only [probes, List.mem_cons, List.not_mem_nil, or_false] at h
      rcases h with rfl | rfl
      · exact Or.inl rfl
      · exact Or.inr (Or.inr ⟨rfl, c, rfl⟩)
  | .func, op, h => by simp [probes] at h; subst h; exact Or.inl rfl
  | .genObj, op, h => by simp [probes] at h; subst h; exact Or.inl rfl
  | .list vs, op, h => by
      simp only [probes, List.mem_cons] at h
      rcases h with heq | heq | h
      · rw [heq]; exact Or.inl rfl
      · rw [heq]; exact Or.inr (Or.inl rfl)
      · exact probesL_safe vs op h
  | .set vs, op, h => by
      simp only [probes, List.mem_cons] at h
      rcases h with heq | heq | h
      · rw [heq]; exact Or.inl rfl
      · rw [heq]; exact Or.inr (Or.inl rfl)
      · exact probesL_safe vs op h
  | .tuple vs, op, h => by
      simp only [probes, List.mem_cons] at h
      rcases h with heq | heq | h
      · rw [heq]; exact Or.inl rfl
      · rw [heq]; exact Or.inr (Or.inl rfl)
      · exact probesL_safe vs op h
  | .dict kvs, op, h => by
      simp only [probes, List.mem_cons] at h
      rcases h with heq | heq | h
      · rw [heq]; exact Or.inl rfl
      · rw [heq]; exact Or.inr (Or.inl rfl)
      · exact probesKV_safe kvs op h
  | .ddict kvs, op, h => by
      simp only [probes, List.mem_cons] at h
      rcases h with heq | heq | h
      · rw [heq]; exact Or.inl rfl
      · rw [heq]; exact Or.inr (Or.inl rfl)
      · exact probesKV_safe kvs op h
theorem probesL_safe : ∀ vs : List Val, ∀ op ∈ probesL vs, SafeProbe op
  | [], op, h => by simp [probesL] at h
  | v :: vs, op, h => by
      simp only [probesL, List.mem_append] at h
      rcases h with h | h
      · exact probes_safe v op h
      · exact probesL_safe vs op h
theorem probesKV_safe : ∀ kvs : List (Val × Val), ∀ op ∈ probesKV kvs, SafeProbe op
  | [], op, h => by simp [probesKV] at h
  | (k, v) :: kvs, op, h => by
      simp only [probesKV, List.mem_append] at h
      rcases h with (h | h) | h
      · exact probes_safe k op h
      · exact probes_safe v op h
      · exact probesKV_safe kvs op h
end

/-- type collection only ever (a) asks for the type of an object, (b) walks an *exact* builtin container or (c) hashes a class
    object that is itself the value (`Type[cls]`): no other operation that could dispatch to user-defined code (attribute hooks,
    descriptors, `__class__`, container protocol methods of subclasses, hashing of instances, equality, truthiness, repr) is
    applied to any object, at any nesting depth.  (`.inst` stands for every non-container object, instances of container
    subclasses included.)  (c) runs user code only for a class whose metaclass defines `__hash__` - the recorded open finding. -/
theorem only_exact_containers_are_traversed (v : Val) :
    ∀ op ∈ probes v, op.2 = .typeOf ∨ isExact op.1 = true ∨ (op.2 = .hashClass ∧ ∃ c, op.1 = .classObj c) :=
  probes_safe v

/-- … so a value without class objects in it is never hashed, compared or otherwise dispatched on -/
theorem no_class_objects_no_hashing (v : Val) (h : ∀ op ∈ probes v, ∀ c, op.1 ≠ .classObj c) :
    ∀ op ∈ probes v, op.2 = .typeOf ∨ isExact op.1 = true := by
  intro op hop
  rcases probes_safe v op hop with h1 | h1 | ⟨_, c, hc⟩
  · exact Or.inl h1
  · exact Or.inr h1
  · exact absurd hc (h op hop c)

example : (probes (.list [.inst 40, .dict [(.inst 41, .str "x")]])).length = 7 := by decide

end MT.C03
