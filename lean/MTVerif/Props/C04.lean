/-
  Props/C04.lean — C04: inferred types admit every observed value, for every TypedDict size limit.

  Only property theorems, their witnesses and non-vacuity examples live here.
  `sub` is `issubclass`; the only fact used about it is reflexivity.
  `Val.wf` says the string keys of every dict are pairwise distinct (true of every Python dict).
-/
import MTVerif.Lemmas.ShrinkSound
import MTVerif.Lemmas.ShrinkPerm
namespace MT.C04
open MT

variable (sub : ClassId → ClassId → Bool) (ao : Bool)

/-- per-value inference admits the value it was computed from, for every limit `k` -/
theorem getType_sound (hrefl : ∀ c, sub c c = true) (k : Nat) (v : Val) (h : v.wf = true) : conforms sub ao (getType k v) v = true :=
  MT.getType_sound sub ao hrefl k v h

/-- merging never loses a member: a value admitted by some input type is admitted by the merged type -/
theorem shrink_sound (hrefl : ∀ c, sub c c = true) (k : Nat) (ts : List Ty) (hw : ∀ t ∈ ts, t.wf = true) (v : Val)
    (h : ∃ t ∈ ts, conforms sub ao t v = true) : conforms sub ao (shrink k ts) v = true :=
  MT.shrink_sound sub ao hrefl k ts hw v h

/-- C04, soundness clause: the single type inferred for a finite collection of values
    (per-value inference followed by merging) has every one of those values as a member,
    for every collection, every nesting and every TypedDict size limit. -/
theorem infer_sound (hrefl : ∀ c, sub c c = true) (k : Nat) (vs : List Val) (hw : ∀ v ∈ vs, v.wf = true) :
    ∀ v ∈ vs, conforms sub ao (infer k vs) v = true := by
  intro v hv
  have hwl : wfL vs = true := by
    clear hv
    induction vs with
    | nil => rfl
    | cons a as ih =>
      simp only [wfL, Bool.and_eq_true]
      exact ⟨hw a (List.mem_cons_self ..), ih (fun x hx => hw x (List.mem_cons_of_mem _ hx))⟩
  exact MT.shrink_sound sub ao hrefl k _ (getTypes_wf k vs hwl) v (getTypes_sound sub ao hrefl k vs hwl v hv)

/-- everything inference builds is a well-formed type (TypedDict keys distinct) -/
theorem infer_wf (k : Nat) (vs : List Val) (hw : wfL vs = true) : (infer k vs).wf = true :=
  shrink_wf k _ (getTypes_wf k vs hw)

/-- Python `==` on types identifies only types with exactly the same members, so returning the first
    of several `==` types (typing.py:149-150) cannot lose a value -/
theorem eqv_sound (a b : Ty) (h : Ty.eqv a b = true) (hb : b.wf = true) (v : Val) :
    conforms sub ao a v = true ↔ conforms sub ao b v = true :=
  Ty.eqv_sound sub ao a b h hb v

/-! Termination ("inference terminates without error"): `shrink`, `getType` are total Lean functions;
    `shrink`'s well-founded recursion is justified in Model/Infer.lean (`termination_by sizeL ts`),
    i.e. every recursive call of shrink_types / shrink_typed_dict_types is on strictly smaller material. -/

/-- C04, order / multiplicity clause: the type inferred for a collection of values does not depend on the order or the
    multiplicity in which the values were seen — two collections with the same members give types that are equal as Python
    compares types (`==`: union members as a set, TypedDict fields as a dict, recursively), hence with the same members. -/
theorem infer_order_independent (k : Nat) (vs vs' : List Val) (hw : wfL vs = true) (h : ∀ v, v ∈ vs ↔ v ∈ vs') :
    Ty.eqv (infer k vs) (infer k vs') = true := by
  unfold infer
  rw [getTypes_eq_map, getTypes_eq_map]
  exact shrink_setEq k _ (fun t ht => by rw [← getTypes_eq_map] at ht; exact getTypes_wf k vs hw t ht) _ (SetEq.map _ h)

/-- … and so does every value get the same verdict from both -/
theorem infer_order_independent_members (k : Nat) (vs vs' : List Val) (hw : wfL vs = true) (hw' : wfL vs' = true)
    (h : ∀ v, v ∈ vs ↔ v ∈ vs') (x : Val) : conforms sub ao (infer k vs) x = conforms sub ao (infer k vs') x := by
  rw [Bool.eq_iff_iff]
  exact Ty.eqv_sound sub ao _ _ (infer_order_independent k vs vs' hw h) (shrink_wf k _ (getTypes_wf k vs' hw')) x

/-! non-vacuity: the hypotheses are met by non-trivial inputs -/
example : (Val.dict [(.str "a", .inst intC), (.str "b", .list [.inst noneC, .dict [(.str "x", .func)]])]).wf = true := by
  decide
example : ∀ c : ClassId, (fun a b => a == b || b == objectC) c c = true := by intro c; simp
example : (Ty.td [("a", .cls intC)] [("b", .union [.cls strC, .cls noneC])]).wf = true := by decide

end MT.C04
