/-
  Props/C05.lean — C05: inferred types are tight: every alternative is witnessed by an observed value.
-/
import MTVerif.Lemmas.Keys
import MTVerif.Model.Witness
import MTVerif.Lemmas.Witness
import MTVerif.Lemmas.WitnessFull
namespace MT.C05
open MT

/-- FULL STATEMENT (proved below: `inferWitnessed_holds`; also evaluated on every generated case by the Lean `witnessed`
    function on the model and by the Python witness oracle on the implementation): the type inferred for a
    non-empty list of well-formed values is witnessed by those values at every nesting position. -/
def InferWitnessed : Prop :=
  ∀ (k : Nat) (vs : List Val), vs ≠ [] → wfL vs = true → witnessed false vs (infer k vs) = true

/-- C05, tightness, the full statement: for every TypedDict size limit and every non-empty collection of well-formed values,
    of any shape and nesting, the inferred type is witnessed by those values at every nesting position — every class named is
    the exact class of an observed value, every union alternative is inhabited, a tuple type has observed tuples of that length,
    `Any` stands only below an observed empty container, a required TypedDict key is in every observed dict at that position and an
    optional one in some but not all, and every field type is witnessed by the values stored under its key.
    (`Lemmas/WitnessTD`: `witnessed` sees the observations as a set, pools observations of one type, respects `==`;
    `Lemmas/WitnessMerge`: the TypedDict → Dict rewrite keeps a type witnessed, and `shrink_witnessed_groups` — by functional
    induction over `shrink`, every member type carrying its own observations, with the invariants of inferred types: normal form,
    TypedDict-free union members, at least one key and at most `k`, disjoint required / optional keys; `Lemmas/WitnessFull`: a
    value witnesses its own type.) -/
theorem inferWitnessed_holds : InferWitnessed := by
  intro k vs hne hwf
  exact infer_witnessed (fun a b => a == b) (fun c => by simp) k vs hne hwf

/-- `InferWitnessed` at the default `max_typed_dict_size` (0: no TypedDict is ever built — C06 `limit_zero_no_typed_dict`):
    the type inferred for any non-empty collection of values, of any shape and nesting, is witnessed by those values at every
    nesting position: every class named is the exact class of an observed value, every union alternative is inhabited, a
    tuple type has observed tuples of that length, `Any` stands only below an observed empty container
    (`Lemmas/Witness.lean`: monotonicity of `witnessed` on TypedDict-free types, `shrink_witnessed` by functional induction over
    `shrink`, a value witnesses its own type).  Kept as the simpler special case of `inferWitnessed_holds`. -/
theorem infer_witnessed_partial (vs : List Val) (hne : vs ≠ []) : witnessed false vs (infer 0 vs) = true :=
  infer_witnessed0 vs hne

/-- a single value witnesses its own type (limit 0) -/
theorem value_witnesses_own_type (v : Val) : witnessed false [v] (getType 0 v) = true := getType_witnessed0 v

/-- more observations never un-witness a TypedDict-free type -/
theorem witnessed_monotone (t : Ty) (ht : t.hasTD = false) (e : Bool) (vs vs' : List Val) (hs : ∀ v ∈ vs, v ∈ vs')
    (h : witnessed e vs t = true) : witnessed e vs' t = true :=
  witnessed_mono t ht e e vs vs' (fun x => x) hs h

/-- Clause "Any appears only where an empty container was observed", semantic form.  Under the *tight* reading
    of `Any` (Any admits no value at all, hence `List[Any]` only the empty list, `Dict[Any, Any]` only the empty
    dict) every observed value is still a member of the inferred type: no observed element ever sits at a
    position typed `Any`. -/
theorem any_only_for_empty_containers (sub : ClassId → ClassId → Bool) (hrefl : ∀ c, sub c c = true)
    (k : Nat) (vs : List Val) (hw : wfL vs = true) :
    ∀ v ∈ vs, conforms sub false (infer k vs) v = true := by
  intro v hv
  exact MT.shrink_sound sub false hrefl k _ (getTypes_wf k vs hw) v (getTypes_sound sub false hrefl k vs hw v hv)

/-- Required / optional keys of a merged TypedDict, stated on the observed dicts: when every value at a
    position is a dict that becomes a TypedDict (non-empty, all-string keys, at most `k` of them), a key is
    *required* in the merge iff **every** observed dict has it, and *optional* iff some observed dict has it and
    some observed dict lacks it. -/
theorem merged_keys (k : Nat) (ds : List (List (Val × Val))) (hne : ds ≠ [])
    (hable : ∀ kvs ∈ ds, tdAble k kvs = true) (s : String) :
    (s ∈ reqKeys (getTypes k (ds.map Val.dict)) ↔ ∀ kvs ∈ ds, hasKey s kvs = true) ∧
    (s ∈ optKeys (getTypes k (ds.map Val.dict)) ↔
      (∃ kvs ∈ ds, hasKey s kvs = true) ∧ (∃ kvs ∈ ds, hasKey s kvs = false)) := by
  have hts : getTypes k (ds.map Val.dict) ≠ [] := by
    rw [getTypes_eq_map]; simpa using hne
  have hreq : ∀ t ∈ getTypes k (ds.map Val.dict), ∃ kvs ∈ ds, t = getType k (.dict kvs) := by
    intro t ht
    rw [getTypes_eq_map] at ht
    simp only [List.map_map, List.mem_map, Function.comp] at ht
    obtain ⟨kvs, hk, rfl⟩ := ht
    exact ⟨kvs, hk, rfl⟩
  have hmem : ∀ kvs ∈ ds, getType k (.dict kvs) ∈ getTypes k (ds.map Val.dict) := by
    intro kvs hk
    rw [getTypes_eq_map]
    simp only [List.map_map, List.mem_map, Function.comp]
    exact ⟨kvs, hk, rfl⟩
  have key : ∀ kvs ∈ ds, (s ∈ (getType k (.dict kvs)).reqKeySet ↔ hasKey s kvs = true) ∧
      ¬ s ∈ (getType k (.dict kvs)).optKeySet := by
    intro kvs hk
    obtain ⟨h1, h2⟩ := reqKeySet_getType k kvs (hable kvs hk)
    rw [h1, h2, mem_strKeys_iff]
    exact ⟨Iff.rfl, by simp⟩
  constructor
  · rw [mem_reqKeys_iff s _ hts]
    constructor
    · intro h kvs hk
      exact ((key kvs hk).1).mp (h _ (hmem kvs hk))
    · intro h t ht
      obtain ⟨kvs, hk, rfl⟩ := hreq t ht
      exact ((key kvs hk).1).mpr (h kvs hk)
  · rw [mem_optKeys_iff]
    constructor
    · rintro (⟨⟨t, ht, hs⟩, hn⟩ | ⟨t, ht, hs⟩)
      · obtain ⟨kvs, hk, rfl⟩ := hreq t ht
        refine ⟨⟨kvs, hk, ((key kvs hk).1).mp hs⟩, ?_⟩
        apply Classical.byContradiction
        intro hcon
        apply hn
        intro t' ht'
        obtain ⟨kvs', hk', rfl⟩ := hreq t' ht'
        apply ((key kvs' hk').1).mpr
        cases hh : hasKey s kvs' with
        | true => rfl
        | false => exact absurd ⟨kvs', hk', hh⟩ hcon
      · obtain ⟨kvs, hk, rfl⟩ := hreq t ht
        exact absurd hs (key kvs hk).2
    · rintro ⟨⟨kvs, hk, hs⟩, ⟨kvs', hk', hs'⟩⟩
      left
      refine ⟨⟨_, hmem kvs hk, ((key kvs hk).1).mpr hs⟩, ?_⟩
      intro hall
      have := ((key kvs' hk').1).mp (hall _ (hmem kvs' hk'))
      rw [hs'] at this; cases this

/-- … and the merged type is exactly the TypedDict over those keys (or, if they are more than `k`, `Dict[str, …]`) -/
theorem merged_shape (k : Nat) (ds : List (List (Val × Val))) (hne : ds ≠ [])
    (hable : ∀ kvs ∈ ds, tdAble k kvs = true) :
    let ts := getTypes k (ds.map Val.dict)
    infer k (ds.map Val.dict) =
      if (reqKeys ts).length + (optKeys ts).length > k then .dict (.cls strC) (shrink k (allVals ts))
      else .td ((reqKeys ts).map (fun s => (s, shrink k (reqVals s ts ++ optVals s ts))))
               ((optKeys ts).map (fun s => (s, shrink k (reqVals s ts ++ optVals s ts)))) := by
  intro ts
  have hall : ts.all Ty.isTD = true := by
    rw [List.all_eq_true]
    intro t ht
    simp only [ts, getTypes_eq_map, List.map_map, List.mem_map, Function.comp] at ht
    obtain ⟨kvs, hk, rfl⟩ := ht
    rw [getType_tdAble k kvs (hable kvs hk)]; rfl
  have hts : ts ≠ [] := by
    simp only [ts, getTypes_eq_map]; simpa using hne
  show shrink k ts = _
  cases hts' : ts with
  | nil => exact absurd hts' hts
  | cons t0 rest =>
    rw [hts'] at hall
    rw [shrink, if_pos hall]

/-! non-vacuity -/
example : tdAble 3 [(.str "a", .inst intC), (.str "b", .func)] = true := by decide
example : tdAble 1 [(.str "a", .inst intC), (.str "b", .func)] = false := by decide
example : witnessed false [.list [.inst intC], .list []] (.list (.union [.any, .cls intC])) = true := by decide
example : witnessed false [.list [.inst intC]] (.list (.union [.any, .cls intC])) = false := by decide

end MT.C05
