/-
  Props/C06.lean — C06: the TypedDict size limit is honoured end to end; zero disables TypedDicts.

  `Ty.tdOk k t`: every TypedDict node inside `t` has between 1 and `k` keys in total (required + optional).
  `Ty.hasTD t`: some TypedDict node occurs in `t`.
-/
import MTVerif.Lemmas.TdSize
import MTVerif.Lemmas.Enforce
import MTVerif.Props.C11
namespace MT.C06
open MT

/-- single values: every TypedDict inside `get_type(v, k)` has 1..k keys, at any nesting depth -/
theorem getType_bound (k : Nat) (v : Val) : (getType k v).tdOk k = true := getType_tdOk k v

/-- merging keeps the bound (oversize merges fall back to Dict[str, …]) -/
theorem shrink_bound (k : Nat) (ts : List Ty) (h : ∀ t ∈ ts, t.tdOk k = true) : (shrink k ts).tdOk k = true :=
  shrink_tdOk k ts h

/-- after merging any number of observed values -/
theorem infer_bound (k : Nat) (vs : List Val) : (infer k vs).tdOk k = true :=
  shrink_tdOk k _ (getTypes_tdOk k vs)

/-- limit 0 (the default): no TypedDict appears in any inferred type -/
theorem limit_zero_no_typed_dict (vs : List Val) : (infer 0 vs).hasTD = false :=
  tdOk_zero _ (infer_bound 0 vs)

/-- only non-empty dicts whose keys are all strings — identifiers, so that the class syntax of the generated TypedDict can
    express them — and that have at most `k` keys become TypedDicts -/
theorem typed_dict_iff (k : Nat) (v : Val) :
    (getType k v).isTD = true ↔
      ∃ kvs, v = .dict kvs ∧ kvs ≠ [] ∧ kvs.all (fun kv => kv.1.tdKeyOk) = true ∧ kvs.length ≤ k := by
  cases v with
  | dict kvs =>
    cases kvs with
    | nil => simp [getType, Ty.isTD]
    | cons kv0 kvs0 =>
      simp only [getType]
      split
      · next hc =>
        simp only [Bool.and_eq_true, decide_eq_true_eq] at hc
        simp only [Ty.isTD, true_iff]
        exact ⟨_, rfl, by simp, hc.1, hc.2⟩
      · next hc =>
        simp only [Ty.isTD, Bool.false_eq_true, false_iff]
        rintro ⟨kvs, heq, _, h1, h2⟩
        cases heq
        apply hc
        simp only [Bool.and_eq_true, decide_eq_true_eq]
        exact ⟨h1, h2⟩
  | _ => simp [getType, Ty.isTD]

/-- … in particular only dicts whose keys are all strings -/
theorem typed_dict_keys_are_strings (k : Nat) (v : Val) (h : (getType k v).isTD = true) :
    ∃ kvs, v = .dict kvs ∧ kvs.all (fun kv => kv.1.strKey?.isSome) = true := by
  obtain ⟨kvs, hv, _, hk, _⟩ := (typed_dict_iff k v).mp h
  exact ⟨kvs, hv, all_tdKeyOk_strKey kvs hk⟩

/-! ### at stub time: the limit in force now, whatever the traces were recorded under -/

/-- C06 for the stub: `shrink_traced_types` rewrites every stored type with `RewriteOversizeTypedDictToDict(k)` (`enforce k`)
    before merging.  Whatever size limits the stored types were recorded under (each is `tdOk k0` for some `k0`: a type some
    `get_type` / `shrink_types` built), the merged type has only TypedDicts with between 1 and `k` keys, at every depth. -/
theorem stub_limit_enforced (k : Nat) (ts : List Ty) (h : ∀ t ∈ ts, ∃ k0, t.tdOk k0 = true) :
    (shrink k (ts.map (enforce k))).tdOk k = true := by
  apply shrink_tdOk
  intro t ht
  obtain ⟨u, hu, rfl⟩ := List.mem_map.mp ht
  obtain ⟨k0, hk0⟩ := h u hu
  exact enforce_tdOk k k0 u hk0

/-- … in particular no TypedDict at all in a stub generated at the default limit 0, even from traces recorded with TypedDicts -/
theorem stub_limit_zero_no_typed_dict (ts : List Ty) (h : ∀ t ∈ ts, ∃ k0, t.tdOk k0 = true) :
    (shrink 0 (ts.map (enforce 0))).hasTD = false :=
  tdOk_zero _ (stub_limit_enforced 0 ts h)

/-- the stub-time rewrite changes nothing on types recorded under the same limit (in the normal form inference builds) -/
theorem enforce_identity_at_own_limit (k : Nat) (ts : List Ty) (h : ∀ t ∈ ts, t.tdOk k = true ∧ t.normal = true) :
    ts.map (enforce k) = ts := map_enforce_id k ts h

/-- … and it never narrows: a member of the stored type is a member of the rewritten one (both readings of `Any`) -/
theorem enforce_never_narrows (sub : ClassId → ClassId → Bool) (ao : Bool) (hrefl : ∀ c, sub c c = true) (k : Nat) (t : Ty) (v : Val)
    (hw : t.wf = true) (h : conforms sub ao t v = true) : conforms sub ao (enforce k t) v = true :=
  enforce_widens sub ao hrefl k t v hw h

/-! ### the TypedDict classes rendered into the stub -/

open MT.Render in
/-- C06 for "the TypedDict classes rendered into the stub": every class `ReplaceTypedDictsWithStubs` generates for a type whose
    TypedDicts have at most `k` keys declares at most `k` fields (a `NonTotal` subclass and its base together exactly the keys of
    their TypedDict: `mixed_td_total_keys`) -/
theorem stub_classes_bounded (nm : Names) (sm : Ty → List (List String)) (k : Nat) (hint : String) (t : Ty) (h : t.tdOk k = true) :
    ∀ d ∈ classesT nm sm hint t, d.fields.length ≤ k := classesT_fields_le nm sm k hint t h

open MT.Render in
/-- … and at limit 0 no class is generated at all -/
theorem stub_classes_none_at_zero (nm : Names) (sm : Ty → List (List String)) (hint : String) (t : Ty) (h : t.tdOk 0 = true) :
    classesT nm sm hint t = [] := by
  have hn := MT.C11.no_td_no_classes hint t (tdOk_zero t h)
  rw [← MT.C11.classesT_names nm sm hint t] at hn
  exact List.map_eq_nil_iff.mp hn

/-- when shapes are mixed every TypedDict is rewritten to Dict, at every depth the generic rewriter reaches -/
theorem mixed_shapes_no_typed_dict (t : Ty) : (tdToDict t).hasTD = false := tdToDict_noTD t

/-- the bound with limit 0 is exactly absence -/
theorem bound_zero_iff_absent (t : Ty) (h : t.tdOk 0 = true) : t.hasTD = false := tdOk_zero t h

/-! non-vacuity -/
example : (Ty.td [("a", .cls intC)] [("b", .list (.td [("c", .any)] []))]).tdOk 2 = true := by decide
example : (Ty.td [("a", .cls intC)] [("b", .list (.td [("c", .any)] []))]).tdOk 1 = false := by decide
example : (Ty.list (.td [("c", .any)] [])).hasTD = true := by decide
/-- a list of three-key TypedDicts recorded under limit 5, stubbed at limit 2 and at limit 0 -/
example : Ty.beq' (shrink 2 ([Ty.list (.td [("a", .cls intC), ("b", .cls strC), ("c", .cls intC)] [])].map (enforce 2)))
    (.list (.dict (.cls strC) (.union [.cls intC, .cls strC]))) = true := by decide +kernel
example : (Ty.list (.td [("a", .cls intC), ("b", .cls strC), ("c", .cls intC)] [])).tdOk 5 = true := by decide

end MT.C06
