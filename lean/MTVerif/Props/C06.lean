/-
  Props/C06.lean — C06: the TypedDict size limit is honoured end to end; zero disables TypedDicts.

  `Ty.tdOk k t`: every TypedDict node inside `t` has between 1 and `k` keys in total (required + optional).
  `Ty.hasTD t`: some TypedDict node occurs in `t`.
-/
import MTVerif.Lemmas.TdSize
namespace MT.C06
open MT

/-- single values: every TypedDict inside `get_type(v, k)` has 1..k keys, at any nesting depth -/
theorem getType_bound (k : Nat) (v : Val) : (getType k v).tdOk k = true := getType_tdOk k v

/-- merging keeps the bound (oversize merges fall back to Dict[str, …]) -/
theorem shrink_bound (k : Nat) (ts : List Ty) (h : ∀ t ∈ ts, t.tdOk k = true) : (shrink k ts).tdOk k = true :=
  shrink_tdOk k ts h

/-- after merging any number of observed values -/
theorem infer_bound (k : Nat) (vs : List Val) : (infer k vs).tdOk k = true :=
  shrink_tdOk k _ (getTypes_tdOk k vs)

/-- limit 0 (the default): no TypedDict appears in any inferred type -/
theorem limit_zero_no_typed_dict (vs : List Val) : (infer 0 vs).hasTD = false :=
  tdOk_zero _ (infer_bound 0 vs)

/-- only non-empty dicts whose keys are all strings — identifiers, so that the class syntax of the generated TypedDict can
    express them — and that have at most `k` keys become TypedDicts -/
theorem typed_dict_iff (k : Nat) (v : Val) :
    (getType k v).isTD = true ↔
      ∃ kvs, v = .dict kvs ∧ kvs ≠ [] ∧ kvs.all (fun kv => kv.1.tdKeyOk) = true ∧ kvs.length ≤ k := by
  cases v with
  | dict kvs =>
    cases kvs with
    | nil => simp [getType, Ty.isTD]
    | cons kv0 kvs0 =>
      simp only [getType]
      split
      · next hc =>
        simp only [Bool.and_eq_true, decide_eq_true_eq] at hc
        simp only [Ty.isTD, true_iff]
        exact ⟨_, rfl, by simp, hc.1, hc.2⟩
      · next hc =>
        simp only [Ty.isTD, Bool.false_eq_true, false_iff]
        rintro ⟨kvs, heq, _, h1, h2⟩
        cases heq
        apply hc
        simp only [Bool.and_eq_true, decide_eq_true_eq]
        exact ⟨h1, h2⟩
  | _ => simp [getType, Ty.isTD]

/-- … in particular only dicts whose keys are all strings -/
theorem typed_dict_keys_are_strings (k : Nat) (v : Val) (h : (getType k v).isTD = true) :
    ∃ kvs, v = .dict kvs ∧ kvs.all (fun kv => kv.1.strKey?.isSome) = true := by
  obtain ⟨kvs, hv, _, hk, _⟩ := (typed_dict_iff k v).mp h
  exact ⟨kvs, hv, all_tdKeyOk_strKey kvs hk⟩

/-- when shapes are mixed every TypedDict is rewritten to Dict, at every depth the generic rewriter reaches -/
theorem mixed_shapes_no_typed_dict (t : Ty) : (tdToDict t).hasTD = false := tdToDict_noTD t

/-- the bound with limit 0 is exactly absence -/
theorem bound_zero_iff_absent (t : Ty) (h : t.tdOk 0 = true) : t.hasTD = false := tdOk_zero t h

/-! non-vacuity -/
example : (Ty.td [("a", .cls intC)] [("b", .list (.td [("c", .any)] []))]).tdOk 2 = true := by decide
example : (Ty.td [("a", .cls intC)] [("b", .list (.td [("c", .any)] []))]).tdOk 1 = false := by decide
example : (Ty.list (.td [("c", .any)] [])).hasTD = true := by decide

end MT.C06
