/-
  Props/C07.lean — C07: shipped rewriters never narrow, never crash, and fire only on their trigger.

  `h : Hier` is the class table (MRO and direct bases, computed by CPython); the theorems use only
  reflexivity and transitivity of `issubclass` and "a direct base is a superclass" — decidable facts about
  a concrete table, evaluated for the fixture table by the check (`hierOk`).
  Totality ("rewriting completes without error") is by construction: `rewrite` is a total function; that the
  implementation raises nothing is what the correspondence relation corr.C07.* establishes on generated types.
-/
import MTVerif.Lemmas.RewriteSound
import MTVerif.Lemmas.Trigger
import MTVerif.Props.C05
namespace MT.C07
open MT

theorem ok_plain (r : RW) (ai ao : Bool) (hm : ai = true → ao = true) (hr : r ≠ .removeEmpty)
    (hl : ∀ n, r ≠ .largeUnion n) : r.ok ai ao :=
  ⟨hm, ⟨fun hr' => absurd hr' hr, fun n hn => absurd hn (hl n)⟩⟩

theorem ok_loose (r : RW) (ai : Bool) (hr : r ≠ .removeEmpty) : r.ok ai true :=
  ⟨fun _ => rfl, ⟨fun hr' => absurd hr' hr, fun _ _ => rfl⟩⟩

theorem ok_removeEmpty : RW.ok .removeEmpty false false :=
  ⟨fun x => x, ⟨fun _ => ⟨rfl, rfl⟩, fun n hn => by cases hn⟩⟩

section
variable (h : Hier)
variable (htrans : ∀ a b c, h.sub a b = true → h.sub b c = true → h.sub a c = true)
variable (hbase : ∀ c b, h.bases c = [b] → h.sub c b = true) (hrefl : ∀ c, h.sub c c = true)

include htrans hbase hrefl

/-- Every shipped rewriter, alone: each *tight* inhabitant of the input type (the reading under which an inferred
    `C[Any]` stands for the empty `C`; every observed value is one — C05) is admitted by the output type. -/
theorem never_narrows (r : RW) (t : Ty) (v : Val) (hw : t.wf = true)
    (hc : conforms h.sub false t v = true) : conforms h.sub true (rewrite h r t) v = true := by
  by_cases hr : r = .removeEmpty
  · subst hr
    have := rewrite_sound h htrans hbase hrefl .removeEmpty false false ok_removeEmpty t v hw hc
    exact conforms_mono h.sub false true (fun _ => rfl) _ v this
  · exact rewrite_sound h htrans hbase hrefl r false true (ok_loose r false hr) t v hw hc

/-- Every rewriter except RemoveEmptyContainers is also non-narrowing at the type level under the usual reading
    of Any (RemoveEmptyContainers is not, by design: it drops `List[Any]` next to `List[int]`). -/
theorem never_narrows_usual (r : RW) (hr : r ≠ .removeEmpty) (t : Ty) (v : Val) (hw : t.wf = true)
    (hc : conforms h.sub true t v = true) : conforms h.sub true (rewrite h r t) v = true :=
  rewrite_sound h htrans hbase hrefl r true true (ok_loose r true hr) t v hw hc

/-- RemoveEmptyContainers preserves tight membership (so rewriters that are sound under the tight reading can follow it) -/
theorem removeEmpty_tight (t : Ty) (v : Val) (hw : t.wf = true)
    (hc : conforms h.sub false t v = true) : conforms h.sub false (rewrite h .removeEmpty t) v = true :=
  rewrite_sound h htrans hbase hrefl .removeEmpty false false ok_removeEmpty t v hw hc

/-- The default chain RemoveEmptyContainers → RewriteConfigDict → RewriteLargeUnion(5) → RewriteGenerator. -/
theorem default_chain_never_narrows (t : Ty) (v : Val) (hw : t.wf = true)
    (hc : conforms h.sub false t v = true) : conforms h.sub true (rewriteChain h defaultChain t) v = true := by
  simp only [rewriteChain, defaultChain, List.foldl]
  have h1 := removeEmpty_tight h htrans hbase hrefl t v hw hc
  have w1 := rewrite_wf h .removeEmpty t hw
  have h2 := rewrite_sound h htrans hbase hrefl .configDict false false
    (ok_plain .configDict false false (fun x => x) (by intro hr; cases hr) (by intro n hn; cases hn)) _ v w1 h1
  have w2 := rewrite_wf h .configDict _ w1
  have h3 := rewrite_sound h htrans hbase hrefl (.largeUnion 5) false true
    (ok_loose (.largeUnion 5) false (by intro hr; cases hr)) _ v w2 h2
  have w3 := rewrite_wf h (.largeUnion 5) _ w2
  exact rewrite_sound h htrans hbase hrefl .generator true true
    (ok_loose .generator true (by intro hr; cases hr)) _ v w3 h3

/-- Any chain of rewriters none of which is RemoveEmptyContainers never narrows (usual reading). -/
theorem chain_never_narrows_usual (rs : List RW) (hrs : ∀ r ∈ rs, r ≠ .removeEmpty) (t : Ty) (v : Val)
    (hw : t.wf = true) (hc : conforms h.sub true t v = true) :
    conforms h.sub true (rewriteChain h rs t) v = true ∧ (rewriteChain h rs t).wf = true := by
  induction rs generalizing t with
  | nil => exact ⟨hc, hw⟩
  | cons r rs ih =>
    simp only [rewriteChain, List.foldl]
    exact ih (fun r' hr' => hrs r' (List.mem_cons_of_mem _ hr')) _ (rewrite_wf h r t hw)
      (never_narrows_usual h htrans hbase hrefl r (hrs r (List.mem_cons_self ..)) t v hw hc)

/-- End to end on what MonkeyType infers: every observed value is admitted by the default-rewritten inferred type,
    for every collection of values and every TypedDict size limit. -/
theorem default_chain_on_inferred (k : Nat) (vs : List Val) (hwv : wfL vs = true) :
    ∀ v ∈ vs, conforms h.sub true (rewriteChain h defaultChain (infer k vs)) v = true := by
  intro v hv
  exact default_chain_never_narrows h htrans hbase hrefl _ v (shrink_wf k _ (getTypes_wf k vs hwv))
    (MT.C05.any_only_for_empty_containers h.sub hrefl k vs hwv v hv)

/-- … and so is the type rewritten by any single shipped rewriter. -/
theorem rewriter_on_inferred (r : RW) (k : Nat) (vs : List Val) (hwv : wfL vs = true) :
    ∀ v ∈ vs, conforms h.sub true (rewrite h r (infer k vs)) v = true := by
  intro v hv
  exact never_narrows h htrans hbase hrefl r _ v (shrink_wf k _ (getTypes_wf k vs hwv))
    (MT.C05.any_only_for_empty_containers h.sub hrefl k vs hwv v hv)

end

/-- "Fires only on its trigger": a rewriter leaves a type unchanged unless its documented trigger occurs in it —
    an empty container next to a non-empty one of the same kind (RemoveEmptyContainers), a union whose members are
    all dicts with one key type (RewriteConfigDict), a union with more members than the maximum (RewriteLargeUnion n),
    a union of plain classes (RewriteMostSpecificCommonBase), `Generator[_, None, None]` (RewriteGenerator).
    `t.normal`: the union nodes of `t` are what `typing.Union[...]` builds (true of every typing object; checked
    by the harness on every generated type). -/
theorem unchanged_without_trigger (h : Hier) (r : RW) (t : Ty) (hn : t.normal = true) (ht : t.trig r = false) :
    rewrite h r t = t := rewrite_unchanged h r t hn ht

/-- … hence the default chain changes nothing when none of its four triggers is present -/
theorem default_chain_unchanged_without_trigger (h : Hier) (t : Ty) (hn : t.normal = true)
    (h1 : t.trig .removeEmpty = false) (h2 : t.trig .configDict = false) (h3 : t.trig (.largeUnion 5) = false)
    (h4 : t.trig .generator = false) : rewriteChain h defaultChain t = t := by
  simp only [rewriteChain, defaultChain, List.foldl]
  rw [rewrite_unchanged h _ t hn h1, rewrite_unchanged h _ t hn h2, rewrite_unchanged h _ t hn h3,
    rewrite_unchanged h _ t hn h4]

/-- the no-op rewriter (empty chain) is the identity -/
theorem noop_id (h : Hier) (t : Ty) : rewriteChain h [] t = t := rfl

/-- well-formedness is preserved, so chains compose -/
theorem rewrite_wf (h : Hier) (r : RW) (t : Ty) (hw : t.wf = true) : (rewrite h r t).wf = true :=
  MT.rewrite_wf h r t hw

/-! non-vacuity: a concrete class table satisfying the hypotheses, and a tight inhabitant -/
def demoHier : Hier where
  mro c := if c == 40 then [40, 41, objectC] else if c == 41 then [41, objectC] else [c, objectC]
  bases c := if c == 40 then [41] else [objectC]
example : conforms demoHier.sub false (.union [.list .any, .list (.cls 41)]) (.list [.inst 40]) = true := by decide
example : Ty.beq' (rewrite demoHier .removeEmpty (.union [.list .any, .list (.cls 41)])) (.list (.cls 41)) = true := by decide

example : (Ty.union [.list .any, .list (.cls 41)]).trig .removeEmpty = true := by decide
example : (Ty.union [.list .any, .cls 41]).trig .removeEmpty = false := by decide
example : (Ty.union [.list .any, .cls 41]).normal = true := by decide +kernel

end MT.C07
