/-
  Props/C07.lean — C07: shipped rewriters never narrow, never crash, and fire only on their trigger.
-/
import MTVerif.Model.Rewrite
import MTVerif.Lemmas.ShrinkSound
namespace MT.C07
open MT

/-- the no-op chain is the identity -/
theorem noop_id (h : Hier) (t : Ty) : rewriteChain h [] t = t := rfl

end MT.C07
