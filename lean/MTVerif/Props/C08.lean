/-
  Props/C08.lean — C08: types and call traces survive serialisation unchanged.

  `Ty.storable env nm t`: every class mentioned in `t` is importable under its own (module, qualname)
  and no union is empty.  `t.normal`: union nodes are what `typing.Union[...]` builds (true of every typing object).
-/
import MTVerif.Lemmas.Roundtrip
import MTVerif.Lemmas.Normal
namespace MT.C08
open MT

/-- every storable type decodes back to exactly itself: nested and optional-key TypedDicts, empty tuples,
    `Tuple[T, ...]`, class-object types `Type[C]`, unions, generators — at any nesting depth -/
theorem type_roundtrip (env : Env) (nm : Names) (t : Ty) (hs : t.storable env nm = true) (hn : t.normal = true) :
    decodeTy env (encodeTy nm t) = .ok t := decode_encode env nm t hs hn

/-- every type the tracer can record — `get_type` of any value, for any TypedDict size limit — is in `typing`'s normal form
    (`Lemmas/Normal.lean`), so it round-trips exactly as soon as its classes are importable under their own names -/
theorem recorded_type_roundtrip (env : Env) (nm : Names) (k : Nat) (v : Val) (hs : (getType k v).storable env nm = true) :
    decodeTy env (encodeTy nm (getType k v)) = .ok (getType k v) :=
  decode_encode env nm _ hs (getType_normal k v)

/-- … and so does every merged type (`shrink_types` of recorded types), which is what `RewriteGenerator`-free stubs are built from -/
theorem inferred_type_roundtrip (env : Env) (nm : Names) (k : Nat) (vs : List Val) (hs : (infer k vs).storable env nm = true) :
    decodeTy env (encodeTy nm (infer k vs)) = .ok (infer k vs) :=
  decode_encode env nm _ hs (infer_normal k vs)

theorem encode_ne_null (nm : Names) (t : Ty) : encodeTy nm t ≠ .null := by
  cases t <;> simp [encodeTy, typingName, typingApp, nameJ]

/-- an absent return / yield type is stored as SQL NULL and nothing else is -/
theorem absent_iff_null (nm : Names) (t : Trace) :
    ((rowOfTrace nm t).returnType = none ↔ t.ret = none) ∧ ((rowOfTrace nm t).yieldType = none ↔ t.yld = none) := by
  simp [rowOfTrace]

/-- … and it comes back absent, while a stored type (NoneType included) comes back as that type -/
theorem maybe_roundtrip (env : Env) (nm : Names) (o : Option Ty)
    (hs : ∀ t, o = some t → t.storable env nm = true ∧ t.normal = true) :
    maybeDecode env (o.map (encodeTy nm)) = .ok o := by
  cases o with
  | none => rfl
  | some t =>
    obtain ⟨h1, h2⟩ := hs t rfl
    simp only [Option.map, maybeDecode]
    have hne := encode_ne_null nm t
    have := decode_encode env nm t h1 h2
    cases hj : encodeTy nm t with
    | null => exact absurd hj hne
    | _ => simp only [maybeDecode, ← hj, this, Except.map]

/-- every call trace of an importable function decodes back to the same function, argument types, return type and
    yield type, absent kept distinct from NoneType -/
theorem trace_roundtrip (env : Env) (nm : Names) (tr : Trace)
    (hf : funcOf env (nm.func tr.func).1 (nm.func tr.func).2 = .ok tr.func)
    (ha : storableF env nm tr.args = true ∧ normalF tr.args = true)
    (hr : ∀ t, tr.ret = some t → t.storable env nm = true ∧ t.normal = true)
    (hy : ∀ t, tr.yld = some t → t.storable env nm = true ∧ t.normal = true) :
    traceOfRow env (rowOfTrace nm tr) = .ok tr := by
  simp only [traceOfRow, rowOfTrace, hf, Except.bind, decodeF_encodeF env nm tr.args ha.1 ha.2,
    maybe_roundtrip env nm tr.ret hr, maybe_roundtrip env nm tr.yld hy, Except.map]

/-! the function kinds of the quantifier: what `get_func_in_module` finds again -/

theorem finds_plain_function (env : Env) (m q : String) (f : FuncId) (h : env.lookup m q = some (.func f))
    (hq : env.funcQual f = q) : funcOf env m q = .ok f := by simp [funcOf, h, unwrapObj, hq]

theorem finds_classmethod (env : Env) (m q : String) (f : FuncId) (h : env.lookup m q = some (.boundMethod f))
    (hq : env.funcQual f = q) : funcOf env m q = .ok f := by simp [funcOf, h, unwrapObj, hq]

theorem finds_readonly_property (env : Env) (m q : String) (f : FuncId)
    (h : env.lookup m q = some (.prop (some f) false false)) (hq : env.funcQual f = q) : funcOf env m q = .ok f := by
  simp [funcOf, h, unwrapObj, hq]

theorem finds_wrapped (env : Env) (m q : String) (g g' f : FuncId)
    (h : env.lookup m q = some (.wrapped g (.wrapped g' (.func f)))) (hq : env.funcQual f = q) : funcOf env m q = .ok f := by
  simp [funcOf, h, unwrapObj, hq]

theorem finds_wrapped_once (env : Env) (m q : String) (g f : FuncId)
    (h : env.lookup m q = some (.wrapped g (.func f))) (hq : env.funcQual f = q) : funcOf env m q = .ok f := by
  simp [funcOf, h, unwrapObj, hq]

theorem settable_property_is_rejected (env : Env) (m q : String) (g : Option FuncId) (d : Bool)
    (h : env.lookup m q = some (.prop g true d)) : funcOf env m q = .error .invalidType := by
  cases g <;> simp [funcOf, h, unwrapObj]

/-! non-vacuity -/
def demoNames : Names where
  cls c := if c == noneC then ("builtins", "NoneType") else if c == intC then ("builtins", "int") else ("m", s!"C{c}")
  func f := ("m", s!"f{f}")
def demoEnv : Env where
  lookup m q := if m == "builtins" && q == "NoneType" then some (.cls noneC)
                else if m == "builtins" && q == "int" then some (.cls intC)
                else if m == "m" && q == "f1" then some (.wrapped 9 (.func 1)) else none
  funcQual f := s!"f{f}"
example : (Ty.td [("a", .tuple [])] [("b", .tupleOf (.union [.cls intC, .cls noneC]))]).storable demoEnv demoNames = true := by
  decide +kernel
example : (Ty.td [("a", .tuple [])] [("b", .tupleOf (.union [.cls intC, .cls noneC]))]).normal = true := by decide +kernel
example : funcOf demoEnv "m" "f1" = .ok 1 := finds_wrapped_once demoEnv "m" "f1" 9 1 (by simp [demoEnv]) (by decide +kernel)

end MT.C08
