/-
  Props/C09.lean — C09: the trace store returns exactly what was added: deduplicated, filtered, bounded.

  Proved for every operation history (any length, any batches, any number of writers — an `add` is one atomic step).
  NOT proved (trusted, and exercised on the real engine at every interruption point by the harness): that an
  interrupted or killed `executemany` inside `with conn:` really rolls back and that concurrent processes serialise.
-/
import MTVerif.Model.Store
namespace MT.C09
open MT.Store

theorem mem_dedup (r : SRow) (l : List SRow) : r ∈ dedup l ↔ r ∈ l := by
  induction l with
  | nil => simp [dedup]
  | cons a l ih =>
    simp only [dedup, List.mem_cons, List.mem_filter, ih, bne_iff_ne, ne_eq]
    constructor
    · rintro (h | ⟨h, _⟩)
      · exact Or.inl h
      · exact Or.inr h
    · rintro (h | h)
      · exact Or.inl h
      · by_cases hra : r = a
        · exact Or.inl hra
        · exact Or.inr ⟨h, hra⟩

theorem nodup_dedup (l : List SRow) : (dedup l).Nodup := by
  induction l with
  | nil => simp [dedup]
  | cons a l ih =>
    simp only [dedup, List.nodup_cons, List.mem_filter, bne_iff_ne, ne_eq]
    exact ⟨fun h => by simp at h, ih.sublist List.filter_sublist⟩

/-- what has been committed: exactly the serialisable rows of the completed `add`s -/
theorem mem_run (ops : List Op) (r : SRow) :
    r ∈ run ops ↔ ∃ batch, Op.add batch ∈ ops ∧ some r ∈ batch := by
  have key : ∀ (ops : List Op) (s : State), r ∈ ops.foldl step s ↔ r ∈ s ∨ ∃ batch, Op.add batch ∈ ops ∧ some r ∈ batch := by
    intro ops
    induction ops with
    | nil => intro s; simp
    | cons op ops ih =>
      intro s
      simp only [List.foldl_cons, ih]
      cases op with
      | add b =>
        simp only [step, List.mem_append, List.mem_filterMap, id, List.mem_cons]
        constructor
        · rintro ((h | ⟨x, hx, rfl⟩) | ⟨b', hb', hr⟩)
          · exact Or.inl h
          · exact Or.inr ⟨b, Or.inl rfl, hx⟩
          · exact Or.inr ⟨b', Or.inr hb', hr⟩
        · rintro (h | ⟨b', hb' | hb', hr⟩)
          · exact Or.inl (Or.inl h)
          · cases hb'; exact Or.inl (Or.inr ⟨some r, hr, rfl⟩)
          · exact Or.inr ⟨b', hb', hr⟩
      | addInterrupted b n =>
        simp only [step, List.mem_cons]
        constructor
        · rintro (h | ⟨b', hb', hr⟩)
          · exact Or.inl h
          · exact Or.inr ⟨b', Or.inr hb', hr⟩
        · rintro (h | ⟨b', hb' | hb', hr⟩)
          · exact Or.inl h
          · cases hb'
          · exact Or.inr ⟨b', hb', hr⟩
      | reopen =>
        simp only [step, List.mem_cons]
        constructor
        · rintro (h | ⟨b', hb', hr⟩)
          · exact Or.inl h
          · exact Or.inr ⟨b', Or.inr hb', hr⟩
        · rintro (h | ⟨b', hb' | hb', hr⟩)
          · exact Or.inl h
          · cases hb'
          · exact Or.inr ⟨b', hb', hr⟩
  simpa [run] using key ops []

/-- C09, query clause: after any history a query returns min(n, d) distinct rows, each committed, with module exactly
    `m` and a qualified name that literally starts with `p` (`String.isPrefixOf`: case-sensitive, no wildcards). -/
theorem filter_spec (ops : List Op) (m : String) (p : Option String) (n : Nat) :
    let R := filter (run ops) m p n
    R.Nodup ∧ R.length = min n (distinctMatching (run ops) m p) ∧
    ∀ r ∈ R, r ∈ run ops ∧ r.module = m ∧ (∀ q, p = some q → q.isPrefixOf r.qualname = true) := by
  refine ⟨(nodup_dedup _).sublist (List.take_sublist _ _), by simp [filter, distinctMatching], ?_⟩
  intro r hr
  have := (mem_dedup r _).mp (List.mem_of_mem_take hr)
  simp only [List.mem_filter, rowMatches, Bool.and_eq_true, beq_iff_eq] at this
  refine ⟨this.1, this.2.1, ?_⟩
  intro q hq
  subst hq
  exact this.2.2

/-- … and nothing that rowMatches is withheld when the limit allows: below the limit the answer is the whole matching set -/
theorem filter_complete (ops : List Op) (m : String) (p : Option String) (n : Nat)
    (hn : distinctMatching (run ops) m p ≤ n) (r : SRow) :
    r ∈ filter (run ops) m p n ↔ r ∈ run ops ∧ rowMatches m p r = true := by
  simp only [filter, distinctMatching] at *
  rw [List.take_of_length_le hn, mem_dedup, List.mem_filter]

theorem mem_dedupStr (a : String) (l : List String) : a ∈ dedupStr l ↔ a ∈ l := by
  induction l with
  | nil => simp [dedupStr]
  | cons b l ih =>
    simp only [dedupStr, List.mem_cons, List.mem_filter, ih, bne_iff_ne, ne_eq]
    constructor
    · rintro (h | ⟨h, _⟩)
      · exact Or.inl h
      · exact Or.inr h
    · rintro (h | h)
      · exact Or.inl h
      · by_cases hab : a = b
        · exact Or.inl hab
        · exact Or.inr ⟨h, hab⟩

theorem nodup_dedupStr (l : List String) : (dedupStr l).Nodup := by
  induction l with
  | nil => simp [dedupStr]
  | cons a l ih =>
    simp only [dedupStr, List.nodup_cons, List.mem_filter, bne_iff_ne, ne_eq]
    exact ⟨fun h => by simp at h, ih.sublist List.filter_sublist⟩

/-- the module listing is exactly the set of (non-empty) modules that have rows, each once -/
theorem listModules_spec (ops : List Op) :
    (listModules (run ops)).Nodup ∧ ∀ m, m ∈ listModules (run ops) ↔ m ≠ "" ∧ ∃ r ∈ run ops, r.module = m := by
  refine ⟨nodup_dedupStr _, ?_⟩
  intro m
  simp only [listModules, mem_dedupStr, List.mem_filter, List.mem_map, bne_iff_ne, ne_eq, decide_eq_true_eq]
  constructor
  · rintro ⟨⟨r, hr, rfl⟩, hne⟩; exact ⟨hne, r, hr, rfl⟩
  · rintro ⟨hne, r, hr, rfl⟩; exact ⟨⟨r, hr, rfl⟩, hne⟩

/-- a batch is committed atomically: all of its serialisable traces … -/
theorem add_atomic (s : State) (batch : List (Option SRow)) :
    step s (.add batch) = s ++ batch.filterMap id := rfl

/-- … the unserialisable ones are skipped without affecting the others … -/
theorem add_skips_unserialisable (s : State) (b1 b2 : List (Option SRow)) :
    step s (.add (b1 ++ none :: b2)) = step s (.add (b1 ++ b2)) := by
  simp [step, List.filterMap_append]

/-- … or, when the write is interrupted part-way, none -/
theorem addInterrupted_noop (s : State) (batch : List (Option SRow)) (n : Nat) :
    step s (.addInterrupted batch n) = s := rfl

/-- committed batches are still there after the database is reopened -/
theorem reopen_id (s : State) : step s .reopen = s := rfl

/-- the answers do not depend on the order in which whole batches were committed (any interleaving of any number of
    connections / processes), nor on interrupted writes or reopenings in between -/
theorem adds_commute (ops ops' : List Op) (h : ∀ batch, Op.add batch ∈ ops ↔ Op.add batch ∈ ops') (r : SRow) :
    r ∈ run ops ↔ r ∈ run ops' := by
  rw [mem_run, mem_run]
  constructor
  · rintro ⟨b, hb, hr⟩; exact ⟨b, (h b).mp hb, hr⟩
  · rintro ⟨b, hb, hr⟩; exact ⟨b, (h b).mpr hb, hr⟩

theorem filter_set_commutes (ops ops' : List Op) (h : ∀ batch, Op.add batch ∈ ops ↔ Op.add batch ∈ ops')
    (m : String) (p : Option String) (n : Nat)
    (hn : distinctMatching (run ops) m p ≤ n) (hn' : distinctMatching (run ops') m p ≤ n) (r : SRow) :
    r ∈ filter (run ops) m p n ↔ r ∈ filter (run ops') m p n := by
  rw [filter_complete ops m p n hn, filter_complete ops' m p n hn', adds_commute ops ops' h]

/-! the prefix test really is literal: the colliding names of the quantifier -/
example : ("my_func".isPrefixOf "myXfunc", "my_func".isPrefixOf "MY_FUNC", "foo".isPrefixOf "Foo.bar",
           "a%".isPrefixOf "aXb", "a%".isPrefixOf "a%b", "".isPrefixOf "x") = (false, false, false, false, true, true) := by
  decide +kernel

/-! non-vacuity -/
def r1 : SRow := ⟨"m", "my_func", "{}", none, none⟩
def r2 : SRow := ⟨"m", "myXfunc", "{}", some "null", none⟩
example : filter (run [.add [some r1, none, some r2], .addInterrupted [some r2] 1, .reopen, .add [some r1]]) "m" (some "my_") 10 = [r1] := by
  decide +kernel

end MT.C09
