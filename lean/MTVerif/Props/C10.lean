/-
  Props/C10.lean — C10: stale or undecodable stored traces are skipped, never fatal.
-/
import MTVerif.Model.GetStub
namespace MT.C10
open MT

/-! ### every stale kind of the quantifier raises a MonkeyTypeError (and therefore is skipped) -/

/-- module removed / submodule removed / function removed / function defined in a local scope
    (`f.<locals>.g` is not an attribute path): the lookup finds nothing -/
theorem function_gone (env : Env) (r : Row) (h : env.lookup r.module r.qualname = none) :
    traceOfRow env r = .error .nameLookup := by
  simp [traceOfRow, funcOf, h, Except.bind]

/-- function replaced by a non-function value -/
theorem function_now_other (env : Env) (r : Row) (h : env.lookup r.module r.qualname = some .other) :
    traceOfRow env r = .error .invalidType := by
  simp [traceOfRow, funcOf, h, unwrapObj, Except.bind]

/-- the name is bound to ANOTHER function now (wrapped by a decorator that does not use functools.wraps: the inner function's
    own `__qualname__` is not the name it is found under) -/
theorem function_now_another_function (env : Env) (r : Row) (g : FuncId) (h : env.lookup r.module r.qualname = some (.func g))
    (hq : env.funcQual g ≠ r.qualname) : traceOfRow env r = .error .invalidType := by
  have : (env.funcQual g == r.qualname) = false := by simpa using hq
  simp [traceOfRow, funcOf, h, unwrapObj, Except.bind, this]

/-- function replaced by a class -/
theorem function_now_class (env : Env) (r : Row) (c : ClassId) (h : env.lookup r.module r.qualname = some (.cls c)) :
    traceOfRow env r = .error .invalidType := by
  simp [traceOfRow, funcOf, h, unwrapObj, Except.bind]

/-- function replaced by a settable property -/
theorem function_now_settable_property (env : Env) (r : Row) (g : Option FuncId) (d : Bool)
    (h : env.lookup r.module r.qualname = some (.prop g true d)) : traceOfRow env r = .error .invalidType := by
  cases g <;> simp [traceOfRow, funcOf, h, unwrapObj, Except.bind]

/-- a class named by an argument / return / yield type was removed (with its module, its package, or alone) -/
theorem class_gone (env : Env) (m q : String) (hm : m ≠ "typing") (h : env.lookup m q = none) :
    decodeTy env (nameJ (m, q)) = .error .nameLookup := by
  have : (m == "typing") = false := by simpa using hm
  simp [nameJ, decodeTy, lookupType, this, h]

/-- the class name is now bound to something that is not a type -/
theorem class_now_non_type (env : Env) (m q : String) (hm : m ≠ "typing") (o : Obj)
    (h : env.lookup m q = some o) (ho : ∀ c, o ≠ .cls c) : decodeTy env (nameJ (m, q)) = .error .invalidType := by
  have hmt : (m == "typing") = false := by simpa using hm
  have hl : lookupType env m q = .error .invalidType := by
    unfold lookupType
    rw [hmt, h]
    cases o with
    | cls c => exact absurd rfl (ho c)
    | _ => simp
  simp [nameJ, decodeTy, hl]

/-- every error the decoder itself raises for a stale name is in the caught family -/
theorem stale_errors_are_caught : PyErr.nameLookup.isMonkeyTypeError = true ∧ PyErr.invalidType.isMonkeyTypeError = true :=
  ⟨rfl, rfl⟩

/-! ### skipping -/

def okTrace (env : Env) (r : Row) : Option Trace := match traceOfRow env r with | .ok t => some t | .error _ => none
def warnOf (env : Env) (r : Row) : Option StderrLine :=
  match traceOfRow env r with | .ok _ => none | .error e => some (.warning e)

theorem decodeLoop_spec (env : Env) (v : Bool) (rows : List Row)
    (h : ∀ r ∈ rows, decodesOk env r = true ∨ decodesStale env r = true) :
    decodeLoop env v rows =
      .ok (rows.filterMap (okTrace env), (if v then rows.filterMap (warnOf env) else []),
           (rows.filter (decodesStale env)).length) := by
  induction rows with
  | nil => cases v <;> rfl
  | cons r rs ih =>
    have ih := ih (fun x hx => h x (List.mem_cons_of_mem _ hx))
    have hr := h r (List.mem_cons_self ..)
    simp only [decodeLoop]
    cases hd : traceOfRow env r with
    | ok t => cases v <;> simp [ih, Except.map, hd, decodesStale, okTrace, warnOf]
    | error e =>
      have he : e.isMonkeyTypeError = true := by
        rcases hr with h1 | h1
        · simp [decodesOk, hd] at h1
        · simpa [decodesStale, hd] using h1
      cases v <;> simp [he, ih, Except.map, hd, decodesStale, okTrace, warnOf]

theorem okTrace_some (env : Env) (r : Row) (h : decodesOk env r = true) : ∃ t, okTrace env r = some t := by
  unfold decodesOk at h; unfold okTrace
  generalize traceOfRow env r = x at h ⊢
  cases x <;> simp_all

theorem okTrace_none (env : Env) (r : Row) (h : ¬ decodesOk env r = true) : okTrace env r = none := by
  unfold decodesOk at h; unfold okTrace
  generalize traceOfRow env r = x at h ⊢
  cases x <;> simp_all

theorem okTrace_filter (env : Env) (rows : List Row) :
    (rows.filter (decodesOk env)).filterMap (okTrace env) = rows.filterMap (okTrace env) := by
  induction rows with
  | nil => rfl
  | cons r rs ih =>
    by_cases hok : decodesOk env r = true
    · obtain ⟨t, ht⟩ := okTrace_some env r hok
      rw [List.filter_cons, if_pos hok, List.filterMap_cons, List.filterMap_cons, ht, ih]
    · rw [List.filter_cons, if_neg hok, List.filterMap_cons, okTrace_none env r hok, ih]

theorem warnOf_stale (env : Env) (r : Row) (h : decodesStale env r = true) : ∃ w, warnOf env r = some w := by
  unfold decodesStale at h; unfold warnOf
  generalize traceOfRow env r = x at h ⊢
  cases x <;> simp_all

theorem warnOf_ok (env : Env) (r : Row) (h : decodesOk env r = true) :
    warnOf env r = none ∧ decodesStale env r = false := by
  unfold decodesOk at h; unfold warnOf decodesStale
  generalize traceOfRow env r = x at h ⊢
  cases x <;> simp_all

theorem warn_count (env : Env) (rows : List Row)
    (h : ∀ r ∈ rows, decodesOk env r = true ∨ decodesStale env r = true) :
    (rows.filterMap (warnOf env)).length = (rows.filter (decodesStale env)).length := by
  induction rows with
  | nil => rfl
  | cons r rs ih =>
    have ih := ih (fun x hx => h x (List.mem_cons_of_mem _ hx))
    rcases h r (List.mem_cons_self ..) with hr | hr
    · obtain ⟨h1, h2⟩ := warnOf_ok env r hr
      rw [List.filterMap_cons, h1, List.filter_cons, h2]
      simpa using ih
    · obtain ⟨w, hw⟩ := warnOf_stale env r hr
      rw [List.filterMap_cons, hw, List.filter_cons, if_pos hr]
      simp [ih]

/-- C10: with stale rows interleaved at any positions, the traces handed to stub generation are exactly those of the
    decodable rows alone (same order, so the output is the same), the exit status is success, and the number of
    skipped rows is reported — one warning each with `-v`, otherwise one summary line. -/
theorem skip_stale (env : Env) (v : Bool) (rows : List Row)
    (h : ∀ r ∈ rows, decodesOk env r = true ∨ decodesStale env r = true) :
    ∃ out good, getStub env v rows = .ok out ∧ getStub env v (rows.filter (decodesOk env)) = .ok good ∧
      out.traces = good.traces ∧ out.exitCode = 0 ∧
      (0 < (rows.filter (decodesStale env)).length → v = false →
        StderrLine.summary (rows.filter (decodesStale env)).length ∈ out.stderr) ∧
      (v = true → ∃ ws : List StderrLine, ws.length = (rows.filter (decodesStale env)).length ∧ ∀ w ∈ ws, w ∈ out.stderr) := by
  have hgood : ∀ r ∈ rows.filter (decodesOk env), decodesOk env r = true ∨ decodesStale env r = true :=
    fun r hr => Or.inl (List.mem_filter.mp hr).2
  have h1 := decodeLoop_spec env v rows h
  have h2 := decodeLoop_spec env v (rows.filter (decodesOk env)) hgood
  refine ⟨_, _, by simp only [getStub, h1, Except.map]; rfl, by simp only [getStub, h2, Except.map]; rfl, ?_, rfl, ?_, ?_⟩
  · simp only [okTrace_filter]
  · intro hpos hvf
    subst hvf
    simp only [Bool.false_eq_true, ↓reduceIte, Bool.not_false, Bool.and_true, decide_eq_true_eq, hpos, List.nil_append]
    split <;> simp
  · intro hvt
    subst hvt
    refine ⟨rows.filterMap (warnOf env), warn_count env rows h, ?_⟩
    intro w hw
    simp only [↓reduceIte, Bool.not_true, Bool.and_false, Bool.false_eq_true]
    split <;> simp [hw]

/-- if nothing is decodable the command says that no traces were found (and still exits 0) -/
theorem none_decodable (env : Env) (v : Bool) (rows : List Row) (h : ∀ r ∈ rows, decodesStale env r = true) :
    ∃ out, getStub env v rows = .ok out ∧ out.traces = [] ∧ StderrLine.noTraces ∈ out.stderr ∧ out.exitCode = 0 := by
  have h1 := decodeLoop_spec env v rows (fun r hr => Or.inr (h r hr))
  have hnil : rows.filterMap (okTrace env) = [] := by
    rw [List.filterMap_eq_nil_iff]
    intro r hr
    have := h r hr
    simp only [decodesStale] at this
    simp only [okTrace]
    cases hd : traceOfRow env r <;> simp_all
  refine ⟨_, by simp only [getStub, h1, Except.map]; rfl, ?_, ?_, rfl⟩
  · simpa using hnil
  · simp [hnil]

/-- a row that fails with anything outside the MonkeyTypeError family is NOT skipped: the command dies
    (malformed rows are outside the property's quantifier; recorded so the model stays honest) -/
theorem malformed_propagates (env : Env) (v : Bool) (r : Row) (rs : List Row)
    (h : traceOfRow env r = .error .malformed) : getStub env v (r :: rs) = .error .malformed := by
  simp [getStub, decodeLoop, h, PyErr.isMonkeyTypeError, Except.map]

end MT.C10
