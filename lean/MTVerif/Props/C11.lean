/-
  Props/C11.lean — C11: rendered annotations denote the inferred type and stubs are self-contained.

  The rendering to an expression tree, the import computation and the naming of generated TypedDict classes are modelled
  (Model/Render.lean) and compared with the implementation as text on every generated type.  That evaluating the rendered text
  with the names the stub provides gives back the rendered type is checked directly on the implementation (the stub's import
  block is really executed); it is NOT a Lean theorem (FULL STATEMENT below).  Two defects of the pinned tree that violate it
  are open known findings (known_findings.txt).
-/
import MTVerif.Model.Render
import MTVerif.Model.TdSize
namespace MT.C11
open MT MT.Render

/-- FULL STATEMENT (evaluated, not proved): for an evaluator `evalAnno` of annotation expressions in the environment built
    from the stub's imports, class stubs, builtins and the target module's own classes, the rendered annotation of every type
    that can reach the renderer evaluates to a type equal (as Python `==`) to the one rendered. -/
def RenderedDenotes (evalAnno : List (String × String) → Expr → Option Ty) : Prop :=
  ∀ (nm : Names) (t : Ty), t.hasTD = false → ∃ t', evalAnno (importsOf nm t) (renderE nm t) = some t' ∧ Ty.eqv t t' = true

/-- a union without NoneType is rendered as Union[...] of its members, in order -/
theorem union_without_none (nm : Names) (ts : List Ty) (h : ts.any isNoneTy = false) :
    renderE nm (.union ts) = .app (.name ["Union"]) (renderL nm ts) := by
  simp [renderE, h]

/-- Optional[X] for a two-member union with NoneType -/
theorem optional_single (nm : Names) (t : Ty) (h : isNoneTy t = false) :
    renderE nm (.union [t, .cls noneC]) = .app (.name ["Optional"]) [renderE nm t] := by
  have h2 : isNoneTy (.cls noneC) = true := by simp [isNoneTy]
  simp only [renderE, List.any_cons, h, h2, Bool.false_or, Bool.true_or, ↓reduceIte, renderNonNone, Bool.false_eq_true]

/-- the empty tuple type is rendered `Tuple[()]` -/
theorem empty_tuple (nm : Names) : renderE nm (.tuple []) = .app (.name ["Tuple"]) [.emptyTuple] := by
  simp [renderE]

mutual
/-- no TypedDict in the type ⇒ no class stub is generated for it (with C06: none at all when the size limit is 0) -/
theorem no_td_no_classes (hint : String) : ∀ t : Ty, t.hasTD = false → tdNames hint t = []
  | .any, _ => by simp [tdNames]
  | .cls _, _ => by simp [tdNames]
  | .typeOf _, _ => by simp [tdNames]
  | .callable, _ => by simp [tdNames]
  | .list a, h => by simp only [Ty.hasTD] at h; simp only [tdNames]; exact no_td_no_classes hint a h
  | .set a, h => by simp only [Ty.hasTD] at h; simp only [tdNames]; exact no_td_no_classes hint a h
  | .iterator a, h => by simp only [Ty.hasTD] at h; simp only [tdNames]; exact no_td_no_classes hint a h
  | .tupleOf a, h => by simp only [Ty.hasTD] at h; simp only [tdNames]; exact no_td_no_classes hint a h
  | .dict a b, h => by
      simp only [Ty.hasTD, Bool.or_eq_false_iff] at h
      simp only [tdNames, no_td_no_classes hint a h.1, no_td_no_classes _ b h.2, List.append_nil]
  | .ddict a b, h => by
      simp only [Ty.hasTD, Bool.or_eq_false_iff] at h
      simp only [tdNames, no_td_no_classes hint a h.1, no_td_no_classes _ b h.2, List.append_nil]
  | .generator a b c, h => by
      simp only [Ty.hasTD, Bool.or_eq_false_iff] at h
      simp only [tdNames, no_td_no_classes hint a h.1.1, no_td_no_classes _ b h.1.2, no_td_no_classes _ c h.2, List.append_nil]
  | .tuple ts, h => by simp only [Ty.hasTD] at h; simp only [tdNames]; exact no_td_no_classesL hint 0 ts h
  | .union ts, h => by simp only [Ty.hasTD] at h; simp only [tdNames]; exact no_td_no_classesL hint 0 ts h
  | .td _ _, h => by simp [Ty.hasTD] at h
theorem no_td_no_classesL (hint : String) : ∀ (i : Nat) (ts : List Ty), hasTDL ts = false → tdNamesL hint i ts = []
  | _, [], _ => by simp [tdNamesL]
  | i, t :: ts, h => by
      simp only [hasTDL, Bool.or_eq_false_iff] at h
      simp only [tdNamesL, no_td_no_classes _ t h.1, no_td_no_classesL hint (i + 1) ts h.2, List.append_nil]
end

theorem importsF_mem (nm : Names) : ∀ (fs : List (String × Ty)) (k : String) (t : Ty), (k, t) ∈ fs →
    ∀ i ∈ importsOf nm t, i ∈ importsF nm fs
  | [], _, _, h, _, _ => by simp at h
  | (k', t') :: fs, k, t, h, i, hi => by
      simp only [importsF, List.mem_append]
      rcases List.mem_cons.mp h with h | h
      · cases h; exact Or.inl hi
      · exact Or.inr (importsF_mem nm fs k t h i hi)

/-- every name a field annotation of a generated TypedDict class needs is in the stub's import block — required or optional
    field, at any depth (a nested TypedDict field is itself a `.td`, so this applies again to its fields) -/
theorem td_fields_imported (nm : Names) (req opt : List (String × Ty)) (k : String) (t : Ty)
    (h : (k, t) ∈ req ∨ (k, t) ∈ opt) : ∀ i ∈ importsOf nm t, i ∈ importsOf nm (.td req opt) := by
  intro i hi
  simp only [importsOf, List.mem_append]
  rcases h with h | h
  · exact Or.inl (importsF_mem nm req k t h i hi)
  · exact Or.inr (importsF_mem nm opt k t h i hi)

/-! the witnesses of the open findings, in the model -/
example : hasNameCollision (tdNames "a" (.tuple [.tuple [.cls intC, .td [("p", .cls intC)] []], .td [("q", .cls strC)] []])) = true := by
  decide +kernel
example : rootClash [("utils", "B"), ("typing", "List"), ("pkg.utils", "B")] = true := by decide +kernel

end MT.C11
