/-
  Props/C11.lean — C11: rendered annotations denote the inferred type and stubs are self-contained.

  The rendering to an expression tree, the import computation and the naming of generated TypedDict classes are modelled
  (Model/Render.lean) and compared with the implementation as text on every generated type.  That evaluating the rendered text
  with the names the stub provides gives back the rendered type is a theorem for the TypedDict-free fragment
  (`rendered_denotes_partial`, over the evaluator of Model/EvalAnno.lean, which is itself compared with the real evaluation of
  the stub text), and is checked directly on the implementation for every generated stub (the import block is really executed).  Two defects of the pinned tree that violate it
  are open known findings (known_findings.txt).
-/
import MTVerif.Model.Render
import MTVerif.Model.TdSize
import MTVerif.Lemmas.EvalAnno
import MTVerif.Lemmas.EvalTD
import MTVerif.Lemmas.Provided
namespace MT.C11
open MT MT.Render

/-- FULL STATEMENT (evaluated on every generated stub, proved below for the TypedDict-free fragment): in the namespace `ns` a
    stub provides (its import block executed in order over builtins and the target module's classes, plus — for types with
    anonymous TypedDicts — the generated class stubs), the rendered and module-stripped annotation of every type evaluates
    to a type with exactly the members of the type that was rendered. -/
def RenderedDenotes (sub : ClassId → ClassId → Bool) (evalWithClasses : NS → Expr → Option Ty)
    (renderWithClasses : Names → Ty → Expr) : Prop :=
  ∀ (ns : NS) (nm : Names) (mods : List (List String)) (t : Ty),
    ∃ t', evalWithClasses ns (stripE mods (renderWithClasses nm t)) = some t' ∧ ∀ v, conforms sub true t' v = conforms sub true t v

/-- C11, denotation, TypedDict-free fragment (`…_partial`: the excluded inputs are exactly the decidable hypothesis `namesOk`,
    i.e. some name of the annotation resolves, in the stub's namespace, to something other than what was rendered — the
    recorded finding KF-C11-same-name-two-modules is its witness below).  For every TypedDict-free type, every class-name
    table, every list of stripped module prefixes and every namespace in which each name the annotation uses denotes what
    was rendered: evaluating the rendered, stripped annotation gives a type with exactly the same members, under both
    readings of `Any`. -/
theorem rendered_denotes_partial (sub : ClassId → ClassId → Bool) (ao : Bool) (ns : NS) (nm : Names) (mods : List (List String))
    (t : Ty) (ht : t.hasTD = false) (hn : namesOk ns nm mods t = true) :
    ∃ t', evalE ns (stripE mods (renderE nm t)) = some t' ∧ ∀ v, conforms sub ao t' v = conforms sub ao t v := by
  obtain ⟨t', he, _, hs⟩ := eval_render sub ao ns nm mods t ht hn
  exact ⟨t', he, hs⟩

/-- `typing.Union[...]` admits exactly what one of its arguments admits (so `Optional[Union[A, B]]` and
    `Union[A, None, B]` are the same type) -/
theorem union_members (sub : ClassId → ClassId → Bool) (ao : Bool) (ts : List Ty) (hw : ∀ t ∈ ts, t.wf = true) (v : Val) :
    conforms sub ao (mkUnion ts) v = conformsAny sub ao ts v := mkUnion_conforms sub ao ts hw v

/-- a union without NoneType is rendered as Union[...] of its members, in order -/
theorem union_without_none (nm : Names) (ts : List Ty) (h : ts.any isNoneTy = false) :
    renderE nm (.union ts) = .app (.name ["Union"]) (renderL nm ts) := by
  simp [renderE, h]

/-- Optional[X] for a two-member union with NoneType -/
theorem optional_single (nm : Names) (t : Ty) (h : isNoneTy t = false) :
    renderE nm (.union [t, .cls noneC]) = .app (.name ["Optional"]) [renderE nm t] := by
  have h2 : isNoneTy (.cls noneC) = true := by simp [isNoneTy]
  simp only [renderE, List.any_cons, h, h2, Bool.false_or, Bool.true_or, ↓reduceIte, renderNonNone, Bool.false_eq_true]

/-- the empty tuple type is rendered `Tuple[()]` -/
theorem empty_tuple (nm : Names) : renderE nm (.tuple []) = .app (.name ["Tuple"]) [.emptyTuple] := by
  simp [renderE]

mutual
/-- no TypedDict in the type ⇒ no class stub is generated for it (with C06: none at all when the size limit is 0) -/
theorem no_td_no_classes (hint : String) : ∀ t : Ty, t.hasTD = false → tdNames hint t = []
  | .any, _ => by simp [tdNames]
  | .cls _, _ => by simp [tdNames]
  | .typeOf _, _ => by simp [tdNames]
  | .callable, _ => by simp [tdNames]
  | .list a, h => by simp only [Ty.hasTD] at h; simp only [tdNames]; exact no_td_no_classes hint a h
  | .set a, h => by simp only [Ty.hasTD] at h; simp only [tdNames]; exact no_td_no_classes hint a h
  | .iterator a, h => by simp only [Ty.hasTD] at h; simp only [tdNames]; exact no_td_no_classes hint a h
  | .tupleOf a, h => by simp only [Ty.hasTD] at h; simp only [tdNames]; exact no_td_no_classes hint a h
  | .dict a b, h => by
      simp only [Ty.hasTD, Bool.or_eq_false_iff] at h
      simp only [tdNames, no_td_no_classes hint a h.1, no_td_no_classes _ b h.2, List.append_nil]
  | .ddict a b, h => by
      simp only [Ty.hasTD, Bool.or_eq_false_iff] at h
      simp only [tdNames, no_td_no_classes hint a h.1, no_td_no_classes _ b h.2, List.append_nil]
  | .generator a b c, h => by
      simp only [Ty.hasTD, Bool.or_eq_false_iff] at h
      simp only [tdNames, no_td_no_classes hint a h.1.1, no_td_no_classes _ b h.1.2, no_td_no_classes _ c h.2, List.append_nil]
  | .tuple ts, h => by simp only [Ty.hasTD] at h; simp only [tdNames]; exact no_td_no_classesL hint 0 ts h
  | .union ts, h => by simp only [Ty.hasTD] at h; simp only [tdNames]; exact no_td_no_classesL hint 0 ts h
  | .td _ _, h => by simp [Ty.hasTD] at h
theorem no_td_no_classesL (hint : String) : ∀ (i : Nat) (ts : List Ty), hasTDL ts = false → tdNamesL hint i ts = []
  | _, [], _ => by simp [tdNamesL]
  | i, t :: ts, h => by
      simp only [hasTDL, Bool.or_eq_false_iff] at h
      simp only [tdNamesL, no_td_no_classes _ t h.1, no_td_no_classesL hint (i + 1) ts h.2, List.append_nil]
end

theorem importsF_mem (nm : Names) : ∀ (fs : List (String × Ty)) (k : String) (t : Ty), (k, t) ∈ fs →
    ∀ i ∈ importsOf nm t, i ∈ importsF nm fs
  | [], _, _, h, _, _ => by simp at h
  | (k', t') :: fs, k, t, h, i, hi => by
      simp only [importsF, List.mem_append]
      rcases List.mem_cons.mp h with h | h
      · cases h; exact Or.inl hi
      · exact Or.inr (importsF_mem nm fs k t h i hi)

/-- every name a field annotation of a generated TypedDict class needs is in the stub's import block — required or optional
    field, at any depth (a nested TypedDict field is itself a `.td`, so this applies again to its fields) -/
theorem td_fields_imported (nm : Names) (req opt : List (String × Ty)) (k : String) (t : Ty)
    (h : (k, t) ∈ req ∨ (k, t) ∈ opt) : ∀ i ∈ importsOf nm t, i ∈ importsOf nm (.td req opt) := by
  intro i hi
  simp only [importsOf, List.mem_append]
  rcases h with h | h
  · exact Or.inl (importsF_mem nm req k t h i hi)
  · exact Or.inr (importsF_mem nm opt k t h i hi)


/-! ### the full statement: generated TypedDict classes included -/

/-- C11, denotation, with generated TypedDict classes (the statement `RenderedDenotes` above, with `evalT` / `renderT` for
    `evalWithClasses` / `renderWithClasses`, under its decidable side conditions).  For every well-formed type `t` (TypedDict
    keys distinct), class-name hint, name table, strip list `mods` for the annotation and strip lists `sm ft` for the
    fields of the generated classes; every stub namespace `ns` and class environment `env` (the generated classes of the
    whole stub, in the order the stub defines them) such that
    * each class generated for `t` is what its name denotes once the stub has been executed (`ClassesIn`: no later
      definition of that name is a different class — the open finding KF-C11-td-class-name-collision is exactly its failure),
    * every other name the annotation or a field annotation uses denotes what was rendered and is not shadowed by a generated
      class, and no TypedDict is empty (`namesOkT`),
    the annotation — `ReplaceTypedDictsWithStubs`, rendered, module prefixes stripped — evaluates, following forward
    references as deep as TypedDicts nest in `t`, to a type with exactly the members of `t` (both readings of `Any`). -/
theorem rendered_denotes (sub : ClassId → ClassId → Bool) (ao : Bool) (ns : NS) (nm : Names) (sm : Ty → List (List String))
    (env : List ClassDef) (mods : List (List String)) (hint : String) (t : Ty) (n : Nat)
    (hd : tdDepth t ≤ n) (hw : t.wf = true) (hcl : ClassesIn env (classesT nm sm hint t))
    (hn : namesOkT ns (hasC env) nm sm mods t = true) :
    ∃ t', evalT ns env n (stripE mods (renderT nm hint t)) = some t' ∧ ∀ v, conforms sub ao t' v = conforms sub ao t v := by
  obtain ⟨t', he, _, hs⟩ := eval_renderT sub ao ns nm sm env t mods hint n hd hw hcl hn
  exact ⟨t', he, hs⟩

/-- a sufficient condition for `ClassesIn`: the stub's class environment contains the generated classes and never defines one
    name in two different ways (identical repetitions — the same TypedDict under the same parameter name in two functions —
    are harmless) -/
theorem classesIn_of_functional (env cs : List ClassDef) (hsub : ∀ d ∈ cs, d ∈ env)
    (hfun : ∀ d₁ ∈ env, ∀ d₂ ∈ env, d₁.name = d₂.name → d₁ = d₂) : ClassesIn env cs := by
  intro d hd
  have hmem : d ∈ env.reverse := List.mem_reverse.mpr (hsub d hd)
  unfold lookupC
  cases hf : env.reverse.find? (fun d' => d'.name == d.name) with
  | none =>
    have := List.find?_eq_none.mp hf d hmem
    simp at this
  | some d' =>
    have h1 : d' ∈ env := List.mem_reverse.mp (List.mem_of_find?_eq_some hf)
    have h2 : d'.name = d.name := by simpa using List.find?_some hf
    rw [hfun d' h1 d (hsub d hd) h2]

mutual
/-- the generated classes carry exactly the names of `tdNames` (the model of the class-name scheme that `hasNameCollision`
    inspects), in the same order -/
theorem classesT_names (nm : Names) (sm : Ty → List (List String)) : ∀ (hint : String) (t : Ty),
    (classesT nm sm hint t).map (·.name) = tdNames hint t
  | _, .any | _, .cls _ | _, .typeOf _ | _, .callable => by simp [classesT, tdNames]
  | hint, .list a | hint, .set a | hint, .iterator a | hint, .tupleOf a => by
      simp only [classesT, tdNames]; exact classesT_names nm sm hint a
  | hint, .dict a b | hint, .ddict a b => by
      simp only [classesT, tdNames, List.map_append, classesT_names nm sm hint a, classesT_names nm sm _ b]
  | hint, .generator a b c => by
      simp only [classesT, tdNames, List.map_append, classesT_names nm sm hint a, classesT_names nm sm _ b, classesT_names nm sm _ c]
  | hint, .tuple ts | hint, .union ts => by simp only [classesT, tdNames]; exact classesTL_names nm sm hint 0 ts
  | hint, .td req opt => by
      match req, opt with
      | [], [] => simp [classesT, tdNames]
      | r :: rs, [] => simp [classesT, tdNames, classesF_names nm sm (r :: rs)]
      | [], o :: os => simp [classesT, tdNames, classesF_names nm sm (o :: os)]
      | r :: rs, o :: os => simp [classesT, tdNames, classesF_names nm sm (r :: rs), classesF_names nm sm (o :: os)]
theorem classesTL_names (nm : Names) (sm : Ty → List (List String)) : ∀ (hint : String) (i : Nat) (ts : List Ty),
    (classesTL nm sm hint i ts).map (·.name) = tdNamesL hint i ts
  | _, _, [] => by simp [classesTL, tdNamesL]
  | hint, i, t :: ts => by
      simp only [classesTL, tdNamesL, List.map_append, classesT_names nm sm _ t, classesTL_names nm sm hint (i + 1) ts]
theorem classesF_names (nm : Names) (sm : Ty → List (List String)) : ∀ (fs : List (String × Ty)),
    (classesF nm sm fs).map (·.name) = tdNamesF fs
  | [] => by simp [classesF, tdNamesF]
  | (k, t) :: fs => by simp only [classesF, tdNamesF, List.map_append, classesT_names nm sm k t, classesF_names nm sm fs]
end

mutual
/-- on a TypedDict-free type the hinted rendering is the plain one (so `rendered_denotes` extends `rendered_denotes_partial`) -/
theorem renderT_noTD (nm : Names) : ∀ (hint : String) (t : Ty), t.hasTD = false → renderT nm hint t = renderE nm t
  | _, .any, _ | _, .cls _, _ | _, .typeOf _, _ | _, .callable, _ => by simp [renderT, renderE]
  | hint, .list a, h | hint, .set a, h | hint, .iterator a, h | hint, .tupleOf a, h => by
      simp only [Ty.hasTD] at h; simp only [renderT, renderE, renderT_noTD nm hint a h]
  | hint, .dict a b, h | hint, .ddict a b, h => by
      simp only [Ty.hasTD, Bool.or_eq_false_iff] at h
      simp only [renderT, renderE, renderT_noTD nm hint a h.1, renderT_noTD nm _ b h.2]
  | hint, .generator a b c, h => by
      simp only [Ty.hasTD, Bool.or_eq_false_iff] at h
      simp only [renderT, renderE, renderT_noTD nm hint a h.1.1, renderT_noTD nm _ b h.1.2, renderT_noTD nm _ c h.2]
  | hint, .tuple ts, h => by
      simp only [Ty.hasTD] at h
      have hl := renderTL_noTD nm hint 0 ts h
      cases ts with
      | nil => simp [renderT, renderE]
      | cons t ts => simp only [renderT, renderE, hl]
  | hint, .union ts, h => by
      simp only [Ty.hasTD] at h
      have hl := renderTL_noTD nm hint 0 ts h
      have hn := renderTNN_noTD nm hint 0 ts h
      unfold renderT renderE
      rw [hl, hn]
      split
      · split <;> split <;> simp_all
      · rfl
  | _, .td _ _, h => by simp [Ty.hasTD] at h
theorem renderTL_noTD (nm : Names) : ∀ (hint : String) (i : Nat) (ts : List Ty), hasTDL ts = false → renderTL nm hint i ts = renderL nm ts
  | _, _, [], _ => by simp [renderTL, renderL]
  | hint, i, t :: ts, h => by
      simp only [hasTDL, Bool.or_eq_false_iff] at h
      simp only [renderTL, renderL, renderT_noTD nm _ t h.1, renderTL_noTD nm hint (i + 1) ts h.2]
theorem renderTNN_noTD (nm : Names) : ∀ (hint : String) (i : Nat) (ts : List Ty), hasTDL ts = false →
    renderTNN nm hint i ts = renderNonNone nm ts
  | _, _, [], _ => by simp [renderTNN, renderNonNone]
  | hint, i, t :: ts, h => by
      simp only [hasTDL, Bool.or_eq_false_iff] at h
      simp only [renderTNN, renderNonNone, renderT_noTD nm _ t h.1, renderTNN_noTD nm hint (i + 1) ts h.2]
end

/-! ### non-vacuity of `rendered_denotes_partial`, and the witness of the excluded case -/

def demoNm : Names where
  cls c := if c == noneC then ("builtins", "NoneType") else if c == intC then ("builtins", "int")
           else if c == 40 then ("utils", "B") else if c == 41 then ("pkg.utils", "B") else if c == 42 then ("nest", "Outer.Inner")
           else ("builtins", "object")
  func _ := ("m", "f")

def demoInv (m : String) (parts : List String) : Option ClassId :=
  if m == "builtins" && parts == ["int"] then some intC
  else if m == "utils" && parts == ["B"] then some 40
  else if m == "pkg.utils" && parts == ["B"] then some 41
  else if m == "nest" && parts == ["Outer", "Inner"] then some 42
  else none

/-- `Dict[int, Optional[List[Outer.Inner]]]` with utils.B as a tuple member: every name resolves -/
def goodTy : Ty := .dict (.cls intC) (.union [.list (.cls 42), .cls noneC, .tuple [.cls 40, .any]])
def goodNS : NS := { imports := [("nest", "Outer"), ("typing", "Any"), ("typing", "Dict"), ("typing", "List"), ("typing", "Optional"),
                                 ("typing", "Tuple"), ("typing", "Union"), ("utils", "B")], own := "target", inv := demoInv }
def goodMods : List (List String) := [["typing"], ["utils"], ["nest"]]

example : goodTy.hasTD = false ∧ namesOk goodNS demoNm goodMods goodTy = true := by decide +kernel

/-- the same-name finding: utils.B and pkg.utils.B in one stub — `B` denotes pkg.utils.B after both imports have run, so the
    hypothesis fails for utils.B (and the implementation's stub indeed denotes the wrong class) -/
def clashNS : NS := { imports := [("pkg.utils", "B"), ("typing", "Tuple"), ("utils", "B")], own := "target", inv := demoInv }
example : namesOk clashNS demoNm [["pkg", "utils"], ["typing"], ["utils"]] (.tuple [.cls 40, .cls 41]) = false := by decide +kernel
example : (evalE clashNS (stripE [["pkg", "utils"], ["typing"], ["utils"]] (renderE demoNm (.tuple [.cls 40, .cls 41])))).map
    (Ty.beq' · (.tuple [.cls 40, .cls 40])) = some true := by decide +kernel


/-! ### "every name used anywhere in a stub is provided" -/

/-- C11, self-containedness, dotted names: every dotted name the rendered annotation of `t` mentions is `None` / `Ellipsis`, a
    `typing` name that `get_imports_for_annotation(t)` lists, or the dotted path of a class that is a builtin or whose module and
    root name that import list contains (classes nested in classes are reached through their outermost class).  The import list of a
    type with anonymous TypedDicts includes what their fields need (`td_fields_imported`). -/
theorem every_name_imported (nm : Names) (hint : String) (t : Ty) :
    ∀ ps ∈ namesE (renderT nm hint t), Provided nm (importsOf nm t) ps := names_provided nm hint t

/-- … and quoted forward references: every one is the name of a class generated for the same type (no TypedDict being empty) -/
theorem every_forward_reference_defined (nm : Names) (sm : Ty → List (List String)) (k : Nat) (hint : String) (t : Ty)
    (h : t.tdOk k = true) : ∀ s ∈ refsE (renderT nm hint t), s ∈ (classesT nm sm hint t).map (·.name) :=
  refs_generated nm sm k hint t h

/-! ### non-vacuity of `rendered_denotes`, and the witness of its excluded case -/

/-- `Dict[int, TD{p: int; q?: List[utils.B]}]` under the parameter name `a`: two generated classes, `A2TypedDict__RENAME_ME__`
    (total, `p`) and `A2TypedDict__RENAME_ME__NonTotal(A2TypedDict__RENAME_ME__, total=False)` (`q`) -/
def tdTy : Ty := .dict (.cls intC) (.td [("p", .cls intC)] [("q", .list (.cls 40))])
def tdSm : Ty → List (List String) := fun _ => [["typing"], ["utils"]]
def tdEnv : List ClassDef := classesT demoNm tdSm "a" tdTy
def tdNS : NS := { imports := [("mypy_extensions", "TypedDict"), ("typing", "Dict"), ("typing", "List"), ("utils", "B")],
                   own := "target", inv := demoInv }

example : tdEnv.map (·.name) = ["A2TypedDict__RENAME_ME__", "A2TypedDict__RENAME_ME__NonTotal"] := by decide +kernel
example : tdDepth tdTy ≤ 2 ∧ tdTy.wf = true ∧ namesOkT tdNS (hasC tdEnv) demoNm tdSm [["typing"], ["utils"]] tdTy = true := by
  decide +kernel
example : ClassesIn tdEnv (classesT demoNm tdSm "a" tdTy) := by
  apply classesIn_of_functional _ _ (fun d hd => hd)
  intro d₁ h₁ d₂ h₂ hn
  simp only [tdEnv, tdTy, classesT, classesF, fieldsT, List.nil_append, List.append_nil, List.cons_append,
    List.mem_cons, List.not_mem_nil, or_false] at h₁ h₂
  rcases h₁ with rfl | rfl <;> rcases h₂ with rfl | rfl <;> first | rfl | (exfalso; revert hn; decide +kernel)
/-- … and the model evaluator indeed gives back the TypedDict -/
example : (evalT tdNS tdEnv 2 (stripE [["typing"], ["utils"]] (renderT demoNm "a" tdTy))).map (Ty.beq' · tdTy) = some true := by
  decide +kernel

/-- the class-name collision finding, in this model: `f(a={'a': {'a': 1}})` — the nested dict under key `a` and the parameter
    `a` both give `ATypedDict__RENAME_ME__`; the inner class is not what its name denotes (the outer one is defined later), so
    `ClassesIn` fails — and the annotation evaluates to no type at all at any depth tried (the class refers to itself) -/
def collTy : Ty := .td [("a", .td [("a", .cls intC)] [])] []
def collEnv : List ClassDef := classesT demoNm tdSm "a" collTy
def collInner : ClassDef := { name := tdClassName "a", base := none, total := true, fields := fieldsT demoNm tdSm [("a", .cls intC)] }
example : ¬ ClassesIn collEnv (classesT demoNm tdSm "a" collTy) := by
  intro h
  have hm : collInner ∈ classesT demoNm tdSm "a" collTy := by simp [collTy, collInner, classesT, classesF]
  have h2 := congrArg (fun o => o.map (fun d => match d.fields with | [(_, .str _)] => true | _ => false)) (h _ hm)
  revert h2
  decide +kernel
example : evalT tdNS collEnv 6 (stripE [["typing"]] (renderT demoNm "a" collTy)) = none := by decide +kernel

/-! the witnesses of the open findings, in the model -/
example : hasNameCollision (tdNames "a" (.tuple [.tuple [.cls intC, .td [("p", .cls intC)] []], .td [("q", .cls strC)] []])) = true := by
  decide +kernel
example : rootClash [("utils", "B"), ("typing", "List"), ("pkg.utils", "B")] = true := by decide +kernel

end MT.C11
