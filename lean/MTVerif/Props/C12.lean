/-
  Props/C12.lean — C12: stubs are valid Python and mirror the traced functions' real signatures.

  Proved: the parameter list MonkeyType renders, read back with Python's parameter-list grammar, gives exactly the
  parameters of the real function — same names, kinds, order, presence of defaults — for every parameter list with kinds in
  the order Python allows, whatever the line width (`params_roundtrip`, `layout_independent`).
  Observed (CPython's parser on generated cases): that the whole stub text parses; the text-level lexing of a parameter list.
-/
import MTVerif.Model.Sig
import MTVerif.Lemmas.ModuleBuild
import MTVerif.Lemmas.FuncDef
import MTVerif.Props.C13
namespace MT.C12
open MT.Sig

/-- the line width never changes the tokens: wrapping cannot change the meaning of a signature -/
theorem layout_independent (w w' : Nat) (ps : List Param) : layout w ps = layout w' ps := rfl

def demote (p : Param) : Param := { p with kind := .posOrKw }

theorem promote_demote (l : List Param) (h : ∀ q ∈ l, q.kind = .posOnly) :
    (l.map demote).map (fun p => { p with kind := PKind.posOnly }) = l := by
  induction l with
  | nil => rfl
  | cons q l ih =>
    have hq := h q (List.mem_cons_self ..)
    simp only [List.map_cons, demote]
    rw [ih (fun x hx => h x (List.mem_cons_of_mem _ hx))]
    congr 1
    cases q; simp_all

theorem validKinds_tail (p : Param) (ps : List Param) (h : validKinds (p :: ps) = true) : validKinds ps = true := by
  cases ps with
  | nil => rfl
  | cons q rest => simp only [validKinds, Bool.and_eq_true] at h; exact h.2

theorem validKinds_head (p q : Param) (rest : List Param) (h : validKinds (p :: q :: rest) = true) :
    kindRank p.kind < kindRank q.kind ∨ (p.kind = q.kind ∧ p.kind ≠ .varPos ∧ p.kind ≠ .varKw) := by
  simp only [validKinds, Bool.and_eq_true, Bool.or_eq_true, decide_eq_true_eq] at h
  rcases h.1 with h1 | h1
  · exact Or.inl h1
  · exact Or.inr (by simpa [and_assoc] using h1)

/-- everything after a parameter of rank `r` has rank at least `r` -/
theorem rank_mono (p : Param) (ps : List Param) (h : validKinds (p :: ps) = true) :
    ∀ q ∈ ps, kindRank p.kind ≤ kindRank q.kind := by
  induction ps generalizing p with
  | nil => intro q hq; cases hq
  | cons a rest ih =>
    intro q hq
    have hh := validKinds_head p a rest h
    have ha : kindRank p.kind ≤ kindRank a.kind := by
      rcases hh with h1 | h1
      · exact Nat.le_of_lt h1
      · rw [h1.1]; exact Nat.le_refl _
    rcases List.mem_cons.mp hq with rfl | hq
    · exact ha
    · exact Nat.le_trans ha (ih a (validKinds_tail p _ h) q hq)

/-- after the keyword marker section has started (`st`): only keyword-only parameters and `**kwargs` follow -/
theorem after_star (acc : List Param) (ss : Bool) :
    ∀ ps : List Param, validKinds ps = true → (∀ q ∈ ps, 3 ≤ kindRank q.kind) →
      parseLoop ss true false acc (renderLoop false false ps) = some (acc ++ ps) := by
  intro ps
  induction ps generalizing acc with
  | nil => intro _ _; simp [renderLoop, parseLoop]
  | cons p ps ih =>
    intro hv hr
    have hp := hr p (List.mem_cons_self ..)
    have hv' := validKinds_tail p ps hv
    cases hk : p.kind with
    | posOnly => simp [hk, kindRank] at hp
    | posOrKw => simp [hk, kindRank] at hp
    | varPos => simp [hk, kindRank] at hp
    | kwOnly =>
      have := ih (acc ++ [p]) hv' (fun q hq => hr q (List.mem_cons_of_mem _ hq))
      simp only [renderLoop, hk, reduceCtorEq, ↓reduceIte, Bool.false_eq_true, and_false, List.nil_append, itemOf,
        List.cons_append, parseLoop]
      rw [show ({ name := p.name, kind := PKind.kwOnly, hasDefault := p.hasDefault, anno := p.anno } : Param) = p from by
        cases p; simp_all]
      simpa using this
    | varKw =>
      -- `**kwargs` is last
      have hnil : ps = [] := by
        cases ps with
        | nil => rfl
        | cons q rest =>
          have := validKinds_head p q rest hv
          rw [hk] at this
          rcases this with h1 | h1
          · cases hq : q.kind <;> simp [hq, kindRank] at h1
          · exact absurd rfl h1.2.2
      subst hnil
      simp only [renderLoop, hk, reduceCtorEq, ↓reduceIte, Bool.false_eq_true, and_false, List.nil_append, itemOf,
        List.cons_append, parseLoop]
      rw [show ({ name := p.name, kind := PKind.varKw, hasDefault := p.hasDefault, anno := p.anno } : Param) = p from by
        cases p; simp_all]

/-- after the positional-only section: positional-or-keyword parameters, then `*args` or a bare `*`, then the rest -/
theorem after_posonly (ss : Bool) :
    ∀ (ps acc : List Param), validKinds ps = true → (∀ q ∈ ps, 1 ≤ kindRank q.kind) →
      parseLoop ss false false acc (renderLoop false true ps) = some (acc ++ ps) := by
  intro ps
  induction ps with
  | nil => intro acc _ _; simp [renderLoop, parseLoop]
  | cons p ps ih =>
    intro acc hv hr
    have hp := hr p (List.mem_cons_self ..)
    have hv' := validKinds_tail p ps hv
    have hmono := rank_mono p ps hv
    cases hk : p.kind with
    | posOnly => simp [hk, kindRank] at hp
    | posOrKw =>
      have := ih (acc ++ [p]) hv' (fun q hq => hr q (List.mem_cons_of_mem _ hq))
      simp only [renderLoop, hk, reduceCtorEq, ↓reduceIte, Bool.false_eq_true, false_and, List.nil_append, itemOf,
        List.cons_append, parseLoop]
      rw [show ({ name := p.name, kind := PKind.posOrKw, hasDefault := p.hasDefault, anno := p.anno } : Param) = p from by
        cases p; simp_all]
      simpa using this
    | varPos =>
      have hrest : ∀ q ∈ ps, 3 ≤ kindRank q.kind := by
        intro q hq
        cases ps with
        | nil => cases hq
        | cons a rest =>
          have h1 := validKinds_head p a rest hv
          rw [hk] at h1
          have ha : 3 ≤ kindRank a.kind := by
            rcases h1 with h1 | h1
            · exact h1
            · exact absurd rfl h1.2.1
          rcases List.mem_cons.mp hq with rfl | hq
          · exact ha
          · exact Nat.le_trans ha (rank_mono a rest hv' q hq)
      have := after_star (acc ++ [p]) ss ps hv' hrest
      simp only [renderLoop, hk, reduceCtorEq, ↓reduceIte, Bool.false_eq_true, List.nil_append, itemOf, List.cons_append,
        parseLoop]
      rw [show ({ name := p.name, kind := PKind.varPos, hasDefault := p.hasDefault, anno := p.anno } : Param) = p from by
        cases p; simp_all]
      simpa using this
    | kwOnly =>
      have hrest : ∀ q ∈ ps, 3 ≤ kindRank q.kind := by
        intro q hq; have := hmono q hq; rw [hk] at this; simpa [kindRank] using this
      have := after_star (acc ++ [p]) ss ps hv' hrest
      simp only [renderLoop, hk, reduceCtorEq, ↓reduceIte, Bool.false_eq_true, and_self, List.nil_append, itemOf,
        List.cons_append, parseLoop, Bool.or_self, List.singleton_append]
      rw [show ({ name := p.name, kind := PKind.kwOnly, hasDefault := p.hasDefault, anno := p.anno } : Param) = p from by
        cases p; simp_all]
      simpa using this
    | varKw =>
      have hnil : ps = [] := by
        cases ps with
        | nil => rfl
        | cons q rest =>
          have := validKinds_head p q rest hv
          rw [hk] at this
          rcases this with h1 | h1
          · cases hq : q.kind <;> simp [hq, kindRank] at h1
          · exact absurd rfl h1.2.2
      subst hnil
      simp only [renderLoop, hk, reduceCtorEq, ↓reduceIte, Bool.false_eq_true, false_and, List.nil_append, itemOf,
        List.cons_append, parseLoop]
      rw [show ({ name := p.name, kind := PKind.varKw, hasDefault := p.hasDefault, anno := p.anno } : Param) = p from by
        cases p; simp_all]

/-- the positional-only section: its members are recognised as such once the "/" arrives -/
theorem posonly_section :
    ∀ (ps processed : List Param), (∀ q ∈ processed, q.kind = .posOnly) → validKinds ps = true →
      (processed ≠ [] → ∀ q ∈ ps, True) →
      parseLoop false false false (processed.map demote) (renderLoop (!processed.isEmpty) true ps) = some (processed ++ ps) := by
  intro ps
  induction ps with
  | nil =>
    intro processed hproc _ _
    cases processed with
    | nil => simp [renderLoop, parseLoop]
    | cons a l =>
      have hpd := promote_demote (a :: l) hproc
      simp only [renderLoop, List.isEmpty_cons, Bool.not_false, ↓reduceIte, parseLoop, Bool.or_self, Bool.false_eq_true,
        List.append_nil]
      rw [hpd]
      simp
  | cons p ps ih =>
    intro processed hproc hv hx
    have hv' := validKinds_tail p ps hv
    by_cases hk : p.kind = .posOnly
    · -- still inside the positional-only section
      have := ih (processed ++ [p]) (by
        intro q hq
        rcases List.mem_append.mp hq with hq | hq
        · exact hproc q hq
        · simp only [List.mem_singleton] at hq; subst hq; exact hk) hv' (fun _ _ _ => trivial)
      simp only [renderLoop, hk, ↓reduceIte, reduceCtorEq, false_and, List.nil_append, itemOf, List.cons_append, parseLoop,
        Bool.false_eq_true]
      have hd : ({ name := p.name, kind := PKind.posOrKw, hasDefault := p.hasDefault, anno := p.anno } : Param) = demote p := rfl
      rw [hd]
      have hne : (!(processed ++ [p]).isEmpty) = true := by simp
      rw [hne] at this
      simpa [List.map_append] using this
    · -- the section ends here
      have hrank : ∀ q ∈ p :: ps, 1 ≤ kindRank q.kind := by
        have h1 : 1 ≤ kindRank p.kind := by cases hp : p.kind <;> simp_all [kindRank]
        intro q hq
        rcases List.mem_cons.mp hq with rfl | hq
        · exact h1
        · exact Nat.le_trans h1 (rank_mono p ps hv q hq)
      cases processed with
      | nil =>
        have := after_posonly false (p :: ps) [] hv hrank
        simpa using this
      | cons a l =>
        have hpd := promote_demote (a :: l) hproc
        have := after_posonly true (p :: ps) (a :: l) hv hrank
        -- the renderer emits "/" first
        have hr : renderLoop (!(a :: l).isEmpty) true (p :: ps) = Tok.slash :: renderLoop false true (p :: ps) := by
          simp only [List.isEmpty_cons, Bool.not_false]
          conv => lhs; unfold renderLoop
          simp only [hk, ↓reduceIte, List.singleton_append]
          conv => rhs; unfold renderLoop
          simp only [hk, ↓reduceIte, Bool.false_eq_true, List.nil_append]
          rfl
        rw [hr]
        simp only [parseLoop, Bool.or_self, List.map_cons, List.isEmpty_cons, Bool.false_eq_true, ↓reduceIte]
        simp only [List.map_cons] at hpd
        rw [hpd]
        exact this

/-- C12, parameter list: reading the rendered parameter list back with Python's grammar gives exactly the real
    parameters: same names, kinds, order and presence of defaults. -/
theorem params_roundtrip (ps : List Param) (h : validKinds ps = true) : parseToks (renderToks ps) = some ps := by
  have := posonly_section ps [] (by simp) h (by simp)
  simpa [parseToks, renderToks] using this

/-- … for every line width -/
theorem params_roundtrip_any_width (w : Nat) (ps : List Param) (h : validKinds ps = true) :
    parseToks (layout w ps) = some ps := params_roundtrip ps h

/-! non-vacuity: def f(a, b=1, /, c=2, *args, k, **kw) -/
example : validKinds [⟨"a", .posOnly, false, none⟩, ⟨"b", .posOnly, true, some "int"⟩, ⟨"c", .posOrKw, true, none⟩,
    ⟨"args", .varPos, false, none⟩, ⟨"k", .kwOnly, false, none⟩, ⟨"kw", .varKw, false, none⟩] = true := by decide
example : renderToks [⟨"a", .posOnly, false, none⟩, ⟨"k", .kwOnly, false, none⟩] =
    [.item 0 "a" none false, .slash, .star, .item 0 "k" none false] := by decide

/-! ### where the function stubs of a module go (`build_module_stubs`) -/

open MT.Build in
/-- C12, "each traced function appears exactly once, inside its class when it is a method, and nothing untraced appears": for
    every list of entries of one module (any class paths of any depth, any order, repetitions allowed), the tree of class stubs
    `build_module_stubs` builds lists every dict item once, and a function `name` sits at class path `path` iff an entry with
    that class path and name was given. -/
theorem each_function_once (es : List Entry) :
    (build es).items.Nodup ∧ ∀ q : Entry, (q.path, q.name) ∈ (build es).items ↔ q ∈ es := by
  have hw : (build es).wfT := wfT_buildFrom es _ 0 wfT_empty
  refine ⟨items_nodup _ hw, fun q => ?_⟩
  rw [mem_items _ _ _ hw]
  unfold build
  rw [lookup_buildFrom es Tree.empty 0 q, lookup_empty]
  simp

open MT.Build in
/-- … and the stub found there comes from the last entry with that qualified name (a later definition replaces an earlier one) -/
theorem later_entry_wins (es : List Entry) (e : Entry) :
    (build (es ++ [e])).lookup e.path e.name = some es.length := by
  have : ∀ (es : List Entry) (t : Tree) (i : Nat), (buildFrom t i (es ++ [e])).lookup e.path e.name = some (i + es.length) := by
    intro es
    induction es with
    | nil => intro t i; simp [buildFrom, lookup_insert_self]
    | cons x xs ih => intro t i; simp only [List.cons_append, buildFrom, ih, List.length_cons, Option.some.injEq]; omega
  simpa [build] using this es Tree.empty 0


/-! ### the head of a function stub and its parameters, for a whole function (`FunctionKind.from_callable`,
    `FunctionStub.render`, `get_updated_definition`; Model/FuncDef) -/

section
open MT MT.Anno MT.FuncDef

/-- the decorator matches the kind: what `getattr_static` finds under the qualified name decides it, and a function whose
    qualified name has no dot is a module-level function whatever it is wrapped in -/
theorem decorator_matches_kind (d : Desc) :
    (kindOf true d).decorator = (match d with
      | .classmethod => some "@classmethod" | .staticmethod => some "@staticmethod" | .property => some "@property"
      | .cachedProperty => some "@cached_property" | .plain => none) ∧
    (kindOf false d).decorator = none := by
  cases d <;> exact ⟨rfl, rfl⟩

/-- different kinds of method never share a decorator line -/
theorem decorator_injective (k1 k2 : FKind) (h : k1.decorator = k2.decorator) (hne : k1.decorator ≠ none) : k1 = k2 := by
  cases k1 <;> cases k2 <;> simp_all [FKind.decorator]

/-- `async` is there exactly for coroutine functions, on the `def` line, after the decorator -/
theorem head_lines (k : FKind) (isAsync : Bool) (name : String) :
    headLines k isAsync name =
      (match k.decorator with | some d => [d] | none => []) ++ [if isAsync then "async def " ++ name else "def " ++ name] := by
  cases isAsync <;> cases k <;> simp [headLines, FKind.decorator]

/-- who has a receiver: methods, class methods and properties; not static methods, not module-level functions -/
theorem receiver_kinds (dot : Bool) (d : Desc) :
    (kindOf dot d).hasSelf = (dot && (match d with | .staticmethod => false | _ => true)) := by
  cases dot <;> cases d <;> rfl

/-- the definition mirrors the function: the same parameter names in the same order, its kind, its `async` -/
theorem definition_mirrors_signature (h : Hier) (chain : List RW) (k : Nat) (st : Strategy) (f : FuncSrc) (traces : List CTrace) :
    (updatedDefinition h chain k st f traces).params.map (·.1) = f.params.map (·.name) ∧
    (updatedDefinition h chain k st f traces).kind = f.kind ∧ (updatedDefinition h chain k st f traces).isAsync = f.isAsync := by
  refine ⟨?_, rfl, rfl⟩
  have key : ∀ (g : SrcParam → Nat → Option Ann) (l : List SrcParam) (n : Nat),
      ((l.zipIdx n).map (fun pi => (pi.1.name, g pi.1 pi.2))).map (·.1) = l.map (·.name) := by
    intro g l
    induction l with
    | nil => intro n; rfl
    | cons a l ih => intro n; simp [List.zipIdx_cons, ih]
  exact key (fun p i => updateArg st (posOf f _ p i)) f.params 0

/-- the receiver of a method is never given a traced type: whatever the traces say about `self` / `cls`, under every strategy
    and every rewriter -/
theorem receiver_never_traced (h : Hier) (chain : List RW) (k : Nat) (st : Strategy) (f : FuncSrc) (traces : List CTrace)
    (hself : f.kind.hasSelf = true) (p : SrcParam) (hp : f.params[0]? = some p) :
    ∃ a, (updatedDefinition h chain k st f traces).params[0]? = some (p.name, a) ∧ ∀ t, a ≠ some (.ty t) := by
  refine ⟨updateArg st (posOf f ((shrinkTraced k traces).1.map (fun nt => (nt.1, rewriteChain h chain nt.2))) p 0), ?_, ?_⟩
  · simp [updatedDefinition, List.getElem?_zipIdx, hp]
  · exact MT.C13.receiver_untouched st _ (by simp [posOf, hself])

end

/-! non-vacuity: `f`, `K.m`, `K.Inner.n`, `K.m` again -/
open MT.Build in
example : (build [⟨[], "f"⟩, ⟨["K"], "m"⟩, ⟨["K", "Inner"], "n"⟩, ⟨["K"], "m"⟩]).items =
    [([], "f"), (["K"], "m"), (["K", "Inner"], "n")] := by decide

end MT.C12
