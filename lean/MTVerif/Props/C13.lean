/-
  Props/C13.lean — C13: existing source annotations are kept, omitted or overridden exactly as requested.
  Decision logic stated outright; for signatures of any length (the per-position function is mapped over the list).
-/
import MTVerif.Model.Anno
import MTVerif.Lemmas.FuncDef
namespace MT.C13
open MT MT.Anno

/-- default mode: an annotated parameter keeps its source annotation -/
theorem replicate_keeps (p : Pos) (a : Nat) (h : p.src = some a) : updateArg .replicate p = some (.src a) := by
  cases hs : p.isSelf <;> simp [updateArg, h, hs]

/-- default mode: an unannotated, traced, non-receiver parameter receives the traced type -/
theorem replicate_fills (p : Pos) (t : Ty) (h : p.src = none) (ht : p.traced = some t) (hs : p.isSelf = false) :
    updateArg .replicate p = some (.ty t) := by
  simp [updateArg, h, ht, hs]

/-- omit mode: annotated positions carry no annotation -/
theorem omit_blank (p : Pos) (a : Nat) (h : p.src = some a) : updateArg .omit p = none := by
  cases hs : p.isSelf <;> simp [updateArg, h, hs]

/-- omit mode: unannotated traced positions receive the traced type -/
theorem omit_fills (p : Pos) (t : Ty) (h : p.src = none) (ht : p.traced = some t) (hs : p.isSelf = false) :
    updateArg .omit p = some (.ty t) := by
  simp [updateArg, h, ht, hs]

/-- ignore mode: every traced position receives the traced type whatever the source says -/
theorem ignore_overrides (p : Pos) (t : Ty) (ht : p.traced = some t) (hs : p.isSelf = false) :
    updateArg .ignore p = some (.ty t) := by
  simp [updateArg, ht, hs]

/-- in no mode is an annotation invented for a position with neither a source annotation nor a trace -/
theorem never_invented (st : Strategy) (p : Pos) (h : p.src = none) (ht : p.traced = none) : updateArg st p = none := by
  cases st <;> cases hs : p.isSelf <;> simp [updateArg, h, ht, hs]

/-- the receiver never receives a traced type -/
theorem receiver_untouched (st : Strategy) (p : Pos) (hs : p.isSelf = true) : ∀ t, updateArg st p ≠ some (.ty t) := by
  intro t
  cases st <;> cases h : p.src <;> simp [updateArg, hs, h]

/-- whole signatures: the length and positions are preserved -/
theorem args_positionwise (st : Strategy) (ps : List Pos) :
    (updateArgs st ps).length = ps.length ∧ ∀ i (h : i < ps.length), (updateArgs st ps)[i]? = some (updateArg st ps[i]) := by
  refine ⟨by simp [updateArgs], ?_⟩
  intro i h
  simp [updateArgs, h]

/-! ### the return position -/

theorem return_replicate_keeps (a : Nat) (r y : Option Ty) : updateReturn .replicate (some a) r y = some (.src a) := by
  simp [updateReturn]

theorem return_omit_blank (a : Nat) (r y : Option Ty) : updateReturn .omit (some a) r y = none := by
  simp [updateReturn]

theorem return_never_invented (st : Strategy) : updateReturn st none none none = none := by
  cases st <;> simp [updateReturn]

/-- a generator's traced return is Iterator of its yield type when it returned nothing (or None), Generator[yield, None, return] otherwise -/
theorem generator_return (st : Strategy) (src : Option Nat) (y : Ty) (r : Option Ty)
    (h : src = none ∨ st = .ignore) :
    updateReturn st src r (some y) =
      some (.ty (match r with
                 | none => .iterator y
                 | some r' => if Ty.eqv r' noneTy then .iterator y else .generator y noneTy r')) := by
  rcases h with h | h
  · subst h; cases st <;> cases r <;> simp [updateReturn] <;> split <;> rfl
  · subst h; cases src <;> cases r <;> simp [updateReturn] <;> split <;> rfl

/-- a plain traced return -/
theorem plain_return (st : Strategy) (src : Option Nat) (r : Ty) (h : src = none ∨ st = .ignore) :
    updateReturn st src (some r) none = some (.ty r) := by
  rcases h with h | h
  · subst h; cases st <;> simp [updateReturn]
  · subst h; cases src <;> simp [updateReturn]

/-- an annotated parameter whose default is None is shown as Optional of its annotation (unless it already is one) -/
theorem optional_for_none_default (a : Ann) : showsOptional false true (some a) = true := rfl
theorem no_optional_without_annotation : showsOptional false true none = false := rfl

/-! ### whole functions (`get_updated_definition`, Model/FuncDef): whatever the traces and the rewriter -/

section
open MT.FuncDef

/-- default mode: a parameter annotated in the source keeps that annotation in the definition, whatever was traced for it -/
theorem definition_keeps_source_annotation (h : Hier) (chain : List RW) (k : Nat) (f : FuncSrc) (traces : List CTrace)
    (i : Nat) (p : SrcParam) (a : Nat) (hp : f.params[i]? = some p) (ha : p.src = some a) :
    (updatedDefinition h chain k .replicate f traces).params[i]? = some (p.name, some (.src a)) := by
  simp only [updatedDefinition, List.getElem?_map, List.getElem?_zipIdx, hp, Option.map_some, Nat.zero_add]
  rw [replicate_keeps _ a (by simpa [posOf] using ha)]

/-- omit mode: a parameter annotated in the source carries no annotation in the definition -/
theorem definition_omits_annotated (h : Hier) (chain : List RW) (k : Nat) (f : FuncSrc) (traces : List CTrace)
    (i : Nat) (p : SrcParam) (a : Nat) (hp : f.params[i]? = some p) (ha : p.src = some a) :
    (updatedDefinition h chain k .omit f traces).params[i]? = some (p.name, none) := by
  simp only [updatedDefinition, List.getElem?_map, List.getElem?_zipIdx, hp, Option.map_some, Nat.zero_add]
  rw [omit_blank _ a (by simpa [posOf] using ha)]

/-- the return position of a whole function: kept in default mode, blank in omit mode, whatever was traced -/
theorem definition_return_annotated (h : Hier) (chain : List RW) (k : Nat) (f : FuncSrc) (traces : List CTrace) (a : Nat)
    (ha : f.retSrc = some a) :
    (updatedDefinition h chain k .replicate f traces).ret = some (.src a) ∧ (updatedDefinition h chain k .omit f traces).ret = none := by
  simp [updatedDefinition, ha, return_replicate_keeps, return_omit_blank]

end

end MT.C13
