/-
  Props/C14.lean — C14: stub content depends only on the set of traces, not their order or process.

  Python `set` / `dict` iteration order, PYTHONHASHSEED and memory layout are modelled as an arbitrary permutation (and
  duplication) of the lists the functions below receive.  Proved here: a union built by `typing.Union[...]` has the same
  members whatever the order and multiplicity of its arguments (`mkUnion_members`, `mkUnion_perm`, `mkUnion_dup`); which keys
  of a merged TypedDict are required / optional does not depend on the order or multiplicity of the merged dicts
  (`reqKeys_perm`, `optKeys_perm`); batches / connections / processes disappear through C09 (`adds_commute`) and stale rows through
  C10.  The whole `shrink_types` result depends only on the *set* of merged types, up to Python `==` (union members as a
  set, TypedDict fields as a dict): `shrink_set`, with `shrink_perm`, `shrink_dup`, `infer_set` and the membership form
  `shrinkPerm_holds` as corollaries (Lemmas/ShrinkPerm.lean; `Ty.eqv` is an equivalence relation: Lemmas/EqvEquiv.lean).
  The order of the blocks of a module stub (`ModuleStub.render`: generated TypedDict classes sorted by (name, text), function
  and class stubs sorted by their unique names) is a function of the multiset of blocks: `module_render_order_independent`.
  Beyond the merge — that the rewriters and the renderer map `==` types to the same text up to member order — is evaluated
  on whole stubs across interpreter processes with different hash seeds (this check), not proved.
-/
import MTVerif.Lemmas.Keys
import MTVerif.Lemmas.ShrinkPerm
import MTVerif.Lemmas.ModuleRender
import MTVerif.Lemmas.LargeUnionPerm
import MTVerif.Lemmas.FuncDef
import MTVerif.Lemmas.Enforce
namespace MT.C14
open MT

/-- the membership form of order-independence (the statement of the earlier rounds, now a corollary) -/
def ShrinkPerm : Prop :=
  ∀ (k : Nat) (ts ts' : List Ty), ts.Perm ts' → (∀ t ∈ ts, t.wf = true) →
    ∀ (sub : ClassId → ClassId → Bool) (v : Val), conforms sub true (shrink k ts) v = conforms sub true (shrink k ts') v

/-- C14, merge step: `shrink_types` applied to two collections of types with the same members — whatever their order
    (set / dict iteration order, hash seeds, memory layout, the order rows come back from the store) and whatever the
    multiplicities (repeated rows, batches, processes) — gives types that are equal as Python compares them: the same
    union members as a set, the same TypedDict fields as a dict, recursively. -/
theorem shrink_set (k : Nat) (ts ts' : List Ty) (hw : ∀ t ∈ ts, t.wf = true) (h : SetEq ts ts') :
    Ty.eqv (shrink k ts) (shrink k ts') = true := shrink_setEq k ts hw ts' h

theorem shrink_perm (k : Nat) (ts ts' : List Ty) (hw : ∀ t ∈ ts, t.wf = true) (hp : ts.Perm ts') :
    Ty.eqv (shrink k ts) (shrink k ts') = true := shrink_set k ts ts' hw (fun _ => hp.mem_iff)

theorem shrink_dup (k : Nat) (t : Ty) (ts : List Ty) (hw : ∀ u ∈ t :: ts, u.wf = true) :
    Ty.eqv (shrink k (t :: t :: ts)) (shrink k (t :: ts)) = true := by
  apply shrink_set k _ _ (fun u hu => hw u (by simp only [List.mem_cons] at hu ⊢; rcases hu with h | h | h <;> simp [h]))
  intro u; simp

/-- the same for what is inferred from values: any order, any repetition of the observed values -/
theorem infer_set (k : Nat) (vs vs' : List Val) (hw : wfL vs = true) (h : SetEq vs vs') :
    Ty.eqv (infer k vs) (infer k vs') = true := by
  unfold infer
  rw [getTypes_eq_map, getTypes_eq_map]
  exact shrink_set k _ _ (fun t ht => by rw [← getTypes_eq_map] at ht; exact getTypes_wf k vs hw t ht) (SetEq.map _ h)

theorem shrinkPerm_holds : ShrinkPerm := by
  intro k ts ts' hp hw sub v
  have hw' : ∀ t ∈ ts', t.wf = true := fun t ht => hw t (hp.mem_iff.mpr ht)
  rw [Bool.eq_iff_iff]
  exact Ty.eqv_sound sub true _ _ (shrink_perm k ts ts' hw hp) (shrink_wf k ts' hw') v

/-- Python `==` on types is an equivalence relation on well-formed types -/
theorem eqv_equivalence :
    (∀ t : Ty, t.wf = true → Ty.eqv t t = true) ∧
    (∀ a b : Ty, b.wf = true → Ty.eqv a b = true → Ty.eqv b a = true) ∧
    (∀ a b c : Ty, Ty.eqv a b = true → Ty.eqv b c = true → Ty.eqv a c = true) :=
  ⟨Ty.eqv_refl, Ty.eqv_symm, Ty.eqv_trans⟩

/-! non-vacuity: three orders / multiplicities of one set of TypedDict types merge to `==` results -/
example : Ty.eqv (shrink 3 [.td [("a", .cls intC)] [], .td [("a", .cls strC), ("b", .cls intC)] [], .list .any])
                 (shrink 3 [.list .any, .td [("a", .cls strC), ("b", .cls intC)] [], .td [("a", .cls intC)] [], .list .any]) = true := by
  decide +kernel

section
variable (sub : ClassId → ClassId → Bool) (ao : Bool)

theorem mem_flat1_iff (ts : List Ty) (t : Ty) :
    t ∈ flat1 ts ↔ ∃ u ∈ ts, (u = t ∧ u.isUnion = false) ∨ (∃ us, u = .union us ∧ t ∈ us) := by
  simp only [flat1, List.mem_flatMap]
  constructor
  · rintro ⟨u, hu, ht⟩
    refine ⟨u, hu, ?_⟩
    cases u <;> simp_all [Ty.isUnion]
  · rintro ⟨u, hu, h⟩
    refine ⟨u, hu, ?_⟩
    rcases h with ⟨rfl, hnu⟩ | ⟨us, rfl, ht⟩
    · cases u <;> simp_all [Ty.isUnion]
    · simpa using ht

/-- the members of `typing.Union[ts]` are exactly the members of its arguments: a value belongs to the union iff it
    belongs to one of the arguments -/
theorem mkUnion_members (ts : List Ty) (hw : ∀ t ∈ ts, t.wf = true) (v : Val) :
    conforms sub ao (mkUnion ts) v = true ↔ ∃ t ∈ ts, conforms sub ao t v = true := by
  constructor
  · intro h
    have hsub : ∀ x ∈ dedupBy Ty.eqv (flat1 ts), x ∈ flat1 ts := dedupBy_subset _ _
    have : ∃ x ∈ flat1 ts, conforms sub ao x v = true := by
      unfold mkUnion at h
      split at h
      · next u heq => exact ⟨u, hsub u (by rw [heq]; simp), h⟩
      · obtain ⟨x, hx, hc⟩ := (conforms_union sub ao _ v).mp h
        exact ⟨x, hsub x hx, hc⟩
    obtain ⟨x, hx, hc⟩ := this
    obtain ⟨u, hu, h'⟩ := (mem_flat1_iff ts x).mp hx
    rcases h' with ⟨rfl, _⟩ | ⟨us, rfl, hxs⟩
    · exact ⟨u, hu, hc⟩
    · exact ⟨.union us, hu, (conforms_union sub ao us v).mpr ⟨x, hxs, hc⟩⟩
  · exact mkUnion_sound sub ao ts hw v

/-- … hence they do not depend on the order in which the arguments arrive (set / dict iteration order, hash seed) -/
theorem mkUnion_perm (ts ts' : List Ty) (hp : ts.Perm ts') (hw : ∀ t ∈ ts, t.wf = true) (v : Val) :
    conforms sub ao (mkUnion ts) v = conforms sub ao (mkUnion ts') v := by
  have hw' : ∀ t ∈ ts', t.wf = true := fun t ht => hw t (hp.mem_iff.mpr ht)
  rw [Bool.eq_iff_iff, mkUnion_members sub ao ts hw, mkUnion_members sub ao ts' hw']
  constructor
  · rintro ⟨t, ht, hc⟩; exact ⟨t, hp.mem_iff.mp ht, hc⟩
  · rintro ⟨t, ht, hc⟩; exact ⟨t, hp.mem_iff.mpr ht, hc⟩

/-- … nor on how often an argument is repeated (duplicate rows, the same trace in several batches) -/
theorem mkUnion_dup (t : Ty) (ts : List Ty) (hw : ∀ u ∈ t :: ts, u.wf = true) (v : Val) :
    conforms sub ao (mkUnion (t :: t :: ts)) v = conforms sub ao (mkUnion (t :: ts)) v := by
  have hw2 : ∀ u ∈ t :: t :: ts, u.wf = true := by
    intro u hu
    rcases List.mem_cons.mp hu with rfl | hu
    · exact hw _ (List.mem_cons_self ..)
    · exact hw u hu
  rw [Bool.eq_iff_iff, mkUnion_members sub ao _ hw2, mkUnion_members sub ao _ hw]
  simp
end

/-- which keys are required in a merged TypedDict does not depend on the order of the merged dicts -/
theorem reqKeys_perm (ts ts' : List Ty) (hp : ts.Perm ts') (hne : ts ≠ []) (s : String) :
    s ∈ reqKeys ts ↔ s ∈ reqKeys ts' := by
  have hne' : ts' ≠ [] := by
    intro h; subst h; exact hne (List.Perm.eq_nil hp)
  rw [mem_reqKeys_iff s ts hne, mem_reqKeys_iff s ts' hne']
  constructor
  · intro h t ht; exact h t (hp.mem_iff.mpr ht)
  · intro h t ht; exact h t (hp.mem_iff.mp ht)

/-- … nor which are optional -/
theorem optKeys_perm (ts ts' : List Ty) (hp : ts.Perm ts') (s : String) : s ∈ optKeys ts ↔ s ∈ optKeys ts' := by
  rw [mem_optKeys_iff, mem_optKeys_iff]
  have e1 : (∃ t ∈ ts, s ∈ t.reqKeySet) ↔ (∃ t ∈ ts', s ∈ t.reqKeySet) :=
    ⟨fun ⟨t, ht, h⟩ => ⟨t, hp.mem_iff.mp ht, h⟩, fun ⟨t, ht, h⟩ => ⟨t, hp.mem_iff.mpr ht, h⟩⟩
  have e2 : (∀ t ∈ ts, s ∈ t.reqKeySet) ↔ (∀ t ∈ ts', s ∈ t.reqKeySet) :=
    ⟨fun h t ht => h t (hp.mem_iff.mpr ht), fun h t ht => h t (hp.mem_iff.mp ht)⟩
  have e3 : (∃ t ∈ ts, s ∈ t.optKeySet) ↔ (∃ t ∈ ts', s ∈ t.optKeySet) :=
    ⟨fun ⟨t, ht, h⟩ => ⟨t, hp.mem_iff.mp ht, h⟩, fun ⟨t, ht, h⟩ => ⟨t, hp.mem_iff.mpr ht, h⟩⟩
  rw [e1, e2, e3]

/-- … and repeating a dict changes neither (multiplicity) -/
theorem reqKeys_dup (t : Ty) (ts : List Ty) (s : String) : s ∈ reqKeys (t :: t :: ts) ↔ s ∈ reqKeys (t :: ts) := by
  rw [mem_reqKeys_iff s _ (by simp), mem_reqKeys_iff s _ (by simp)]
  simp

/-- C14, emission order: the text of a module stub does not depend on the order in which the stubs of its generated
    TypedDict classes (same-named ones included), functions and classes were produced — which is the order the traces
    were read in. -/
theorem module_render_order_independent (imports : Option String) (tds tds' funcs funcs' classes classes' : List (String × String))
    (h1 : tds.Perm tds') (h2 : funcs.Perm funcs') (h3 : classes.Perm classes')
    (hf : UniqueNames funcs) (hc : UniqueNames classes) :
    renderModule imports tds funcs classes = renderModule imports tds' funcs' classes' := by
  unfold renderModule
  rw [classBlocks_perm h1, namedBlocks_perm hf h2, namedBlocks_perm hc h3]

/-- non-vacuity, and the case the sort key matters for: two generated classes with one name come out in text order,
    whichever was produced first -/
example : classBlocks [("ATypedDict", "class A: z"), ("ATypedDict", "class A: p")] = ["class A: p", "class A: z"] ∧
    classBlocks [("ATypedDict", "class A: p"), ("ATypedDict", "class A: z")] = ["class A: p", "class A: z"] := by
  have h2 : classBlocks [("ATypedDict", "class A: p"), ("ATypedDict", "class A: z")] = ["class A: p", "class A: z"] := by
    unfold classBlocks
    rw [List.mergeSort_of_pairwise]
    · rfl
    · simp only [List.pairwise_cons, List.mem_cons, List.mem_nil_iff, or_false, forall_eq, List.Pairwise.nil, and_true,
        false_imp_iff, implies_true]
      decide +kernel
  exact ⟨(classBlocks_perm (List.Perm.swap _ _ _)).trans h2, h2⟩

/-- C14, `RewriteLargeUnion`: a union of classes with more members than the limit is replaced by the same class whatever
    the order of its members (which is the order the traces were read in), as long as distinct classes have distinct
    `(module, qualname)` keys — also when multiple inheritance leaves several equally specific common ancestors. -/
theorem large_union_order_independent (h : Hier) (n : Nat) (cs cs' : List ClassId) (hp : cs.Perm cs')
    (hinj : ∀ a b, h.rank a = h.rank b → a = b) (hlen : n < cs.length) :
    rewrite h (.largeUnion n) (.union (cs.map Ty.cls)) = rewrite h (.largeUnion n) (.union (cs'.map Ty.cls)) := by
  have hlen' : n < cs'.length := by rw [← hp.length_eq]; exact hlen
  simp only [rewrite, List.length_map, Nat.not_le.mpr hlen, Nat.not_le.mpr hlen', if_false]
  exact largeUnionCollapse_classes_perm h cs cs' hp hinj

/-- the multiple-inheritance table of the defect: P = 50, Q = 51, X(P, Q) = 52, Y(Q, P) = 53, Z(P, Q) = 54 -/
def miHier : Hier where
  mro c := match c with
    | 52 => [52, 50, 51, objectC] | 53 => [53, 51, 50, objectC] | 54 => [54, 50, 51, objectC]
    | c => [c, objectC]
  bases c := match c with
    | 52 => [50, 51] | 53 => [51, 50] | 54 => [50, 51]
    | _ => [objectC]

/-- non-vacuity: whichever member comes first, the union collapses to P (the old code answered Q for the second order) -/
example : Ty.beq' (rewrite miHier (.largeUnion 2) (.union [.cls 52, .cls 53, .cls 54])) (.cls 50) = true ∧
    Ty.beq' (rewrite miHier (.largeUnion 2) (.union [.cls 53, .cls 52, .cls 54])) (.cls 50) = true := by decide


/-! ### the traces of one function (`shrink_traced_types`, Model/FuncDef) -/

section
open MT.FuncDef

/-- two results of the per-position merge agree: both absent, or both present and `==` -/
def agree : Option Ty → Option Ty → Prop
  | none, none => True
  | some a, some b => Ty.eqv a b = true
  | _, _ => False

theorem shrinkOpt_setEq (k : Nat) (ts ts' : List Ty) (hw : ∀ t ∈ ts, t.wf = true) (hs : SetEq ts ts') :
    agree (shrinkOpt k ts) (shrinkOpt k ts') := by
  cases ts with
  | nil => rw [SetEq.nil_iff hs]; simp [shrinkOpt, agree]
  | cons t0 rest =>
    cases ts' with
    | nil => exact absurd (SetEq.nil_iff hs.symm) (by simp)
    | cons u0 rest' =>
      simp only [shrinkOpt, List.isEmpty_cons, Bool.false_eq_true, if_false, agree]
      exact shrink_setEq k _ hw _ hs

/-- C14 for a whole function: the traces of a function handed to stub generation in another order, with repetitions, or
    collected from other batches — two lists with the same members — give, for every parameter name, for the return and for the
    yield position, the same outcome: no traced type at all, or merged types that are equal as Python compares types. -/
theorem traced_types_depend_on_the_set (k : Nat) (tr1 tr2 : List CTrace) (hs : SetEq tr1 tr2)
    (hw : ∀ tr ∈ tr1, (∀ a ∈ tr.args, a.2.wf = true) ∧ (∀ t, tr.ret = some t → t.wf = true) ∧ (∀ t, tr.yld = some t → t.wf = true)) :
    (∀ name, agree ((shrinkTraced k tr1).1.lookup name) ((shrinkTraced k tr2).1.lookup name)) ∧
    agree (shrinkTraced k tr1).2.1 (shrinkTraced k tr2).2.1 ∧ agree (shrinkTraced k tr1).2.2 (shrinkTraced k tr2).2.2 := by
  refine ⟨fun name => ?_, ?_, ?_⟩
  · have hset : SetEq (typesFor name (allArgs k tr1)) (typesFor name (allArgs k tr2)) := by
      intro t
      rw [mem_typesFor_allArgs, mem_typesFor_allArgs]
      constructor
      · rintro ⟨tr, htr, rest⟩; exact ⟨tr, (hs tr).mp htr, rest⟩
      · rintro ⟨tr, htr, rest⟩; exact ⟨tr, (hs tr).mpr htr, rest⟩
    have hwf : ∀ t ∈ typesFor name (allArgs k tr1), t.wf = true := by
      intro t ht
      obtain ⟨tr, htr, t0, ht0, rfl⟩ := (mem_typesFor_allArgs k tr1 name t).mp ht
      exact enforce_wf k t0 ((hw tr htr).1 _ ht0)
    rw [lookup_shrinkTraced, lookup_shrinkTraced]
    have := shrinkOpt_setEq k _ _ hwf hset
    simpa [shrinkOpt, List.isEmpty_iff] using this
  · have hset : SetEq (retTypes k tr1) (retTypes k tr2) := by
      intro t
      rw [mem_retTypes, mem_retTypes]
      constructor
      · rintro ⟨tr, htr, rest⟩; exact ⟨tr, (hs tr).mp htr, rest⟩
      · rintro ⟨tr, htr, rest⟩; exact ⟨tr, (hs tr).mpr htr, rest⟩
    apply shrinkOpt_setEq k _ _ _ hset
    intro t ht
    obtain ⟨tr, htr, t0, ht0, rfl⟩ := (mem_retTypes k tr1 t).mp ht
    exact enforce_wf k t0 ((hw tr htr).2.1 t0 ht0)
  · have hset : SetEq (yldTypes k tr1) (yldTypes k tr2) := by
      intro t
      rw [mem_yldTypes, mem_yldTypes]
      constructor
      · rintro ⟨tr, htr, rest⟩; exact ⟨tr, (hs tr).mp htr, rest⟩
      · rintro ⟨tr, htr, rest⟩; exact ⟨tr, (hs tr).mpr htr, rest⟩
    apply shrinkOpt_setEq k _ _ _ hset
    intro t ht
    obtain ⟨tr, htr, t0, ht0, rfl⟩ := (mem_yldTypes k tr1 t).mp ht
    exact enforce_wf k t0 ((hw tr htr).2.2 t0 ht0)


/-- two annotations agree: both absent, the same source annotation, or traced types that are `==` -/
def agreeAnn : Option Anno.Ann → Option Anno.Ann → Prop
  | none, none => True
  | some (.src a), some (.src b) => a = b
  | some (.ty a), some (.ty b) => Ty.eqv a b = true
  | _, _ => False

theorem updateArg_agree (st : Anno.Strategy) (src : Option Nat) (isSelf : Bool) (t1 t2 : Option Ty) (h : agree t1 t2) :
    agreeAnn (Anno.updateArg st { src := src, traced := t1, isSelf := isSelf })
             (Anno.updateArg st { src := src, traced := t2, isSelf := isSelf }) := by
  cases t1 <;> cases t2 <;> simp only [agree] at h <;>
    cases st <;> cases src <;> cases isSelf <;> simp_all [Anno.updateArg, agreeAnn]

/-- C14 for the parameters of a whole definition, without a rewriter (`--disable-type-rewriting`): the traces in another order, with
    repetitions, from other batches give, position by position, the same outcome — no annotation, the source's annotation, or traced
    types that are equal as Python compares types -/
theorem definition_params_depend_on_the_set (h : Hier) (k : Nat) (st : Anno.Strategy) (f : FuncSrc) (tr1 tr2 : List CTrace)
    (hs : SetEq tr1 tr2)
    (hw : ∀ tr ∈ tr1, (∀ a ∈ tr.args, a.2.wf = true) ∧ (∀ t, tr.ret = some t → t.wf = true) ∧ (∀ t, tr.yld = some t → t.wf = true))
    (i : Nat) (p : SrcParam) (hp : f.params[i]? = some p) :
    ∃ a1 a2, (updatedDefinition h [] k st f tr1).params[i]? = some (p.name, a1) ∧
             (updatedDefinition h [] k st f tr2).params[i]? = some (p.name, a2) ∧ agreeAnn a1 a2 := by
  have hag := (traced_types_depend_on_the_set k tr1 tr2 hs hw).1 p.name
  have hid : ∀ (l : List (String × Ty)), l.map (fun nt => (nt.1, rewriteChain h [] nt.2)) = l := by
    intro l; induction l with
    | nil => rfl
    | cons x xs ih => simp [rewriteChain]
  refine ⟨Anno.updateArg st (posOf f ((shrinkTraced k tr1).1.map (fun nt => (nt.1, rewriteChain h [] nt.2))) p i),
          Anno.updateArg st (posOf f ((shrinkTraced k tr2).1.map (fun nt => (nt.1, rewriteChain h [] nt.2))) p i), ?_, ?_, ?_⟩
  · simp [updatedDefinition, List.getElem?_zipIdx, hp]
  · simp [updatedDefinition, List.getElem?_zipIdx, hp]
  · simp only [hid, posOf]
    exact updateArg_agree st p.src _ _ _ hag

/-- non-vacuity: two traces of `f(a, b)` / `f(a)` in both orders -/
example : ((shrinkTraced 0 [⟨[("a", .cls intC), ("b", .cls strC)], some (.cls noneC), none⟩, ⟨[("a", .cls strC)], none, none⟩]).1.lookup "a").any
      (fun t => Ty.beq' t (.union [.cls intC, .cls strC])) = true := by decide +kernel

end

/-- the Protocol table of the second defect: B = 60, Drawable = 61 (a Protocol that is not runtime-checkable: `issubclass`
    refuses it), Circle(B, Drawable) = 62, S1(B) = 63, S2(B) = 64 -/
def protoHier : Hier where
  mro c := match c with
    | 62 => [62, 60, 61, objectC] | 63 => [63, 60, objectC] | 64 => [64, 60, objectC]
    | c => [c, objectC]
  bases c := match c with
    | 62 => [60, 61] | 63 => [60] | 64 => [60]
    | _ => [objectC]
  unchk c := c == 61

/-- non-vacuity: Circle first or last, the union collapses to B (the old code answered `Any` when Circle came first: the
    TypeError of `issubclass(_, Drawable)` discarded every candidate) -/
example : Ty.beq' (rewrite protoHier (.largeUnion 2) (.union [.cls 62, .cls 63, .cls 64])) (.cls 60) = true ∧
    Ty.beq' (rewrite protoHier (.largeUnion 2) (.union [.cls 63, .cls 64, .cls 62])) (.cls 60) = true := by decide +kernel

end MT.C14
