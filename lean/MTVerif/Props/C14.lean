/-
  Props/C14.lean — C14: stub content depends only on the set of traces, not their order or process.

  Python `set` / `dict` iteration order, PYTHONHASHSEED and memory layout are modelled as an arbitrary permutation (and
  duplication) of the lists the functions below receive.  Proved here: a union built by `typing.Union[...]` has the same
  members whatever the order and multiplicity of its arguments (`mkUnion_members`, `mkUnion_perm`, `mkUnion_dup`); which keys
  of a merged TypedDict are required / optional does not depend on the order or multiplicity of the merged dicts
  (`reqKeys_perm`, `optKeys_perm`); batches / connections / processes disappear through C09 (`adds_commute`) and stale rows through
  C10.  NOT proved: order-independence of the whole `shrink_types` result up to union-member order (FULL STATEMENT `ShrinkPerm`);
  it is evaluated on the model and on the implementation for every generated multiset (C04) and for whole stubs across
  interpreter processes with different hash seeds (this check).
-/
import MTVerif.Lemmas.Keys
namespace MT.C14
open MT

/-- FULL STATEMENT (evaluated, not proved) -/
def ShrinkPerm : Prop :=
  ∀ (k : Nat) (ts ts' : List Ty), ts.Perm ts' → (∀ t ∈ ts, t.wf = true) →
    ∀ (sub : ClassId → ClassId → Bool) (v : Val), conforms sub true (shrink k ts) v = conforms sub true (shrink k ts') v

section
variable (sub : ClassId → ClassId → Bool) (ao : Bool)

theorem mem_flat1_iff (ts : List Ty) (t : Ty) :
    t ∈ flat1 ts ↔ ∃ u ∈ ts, (u = t ∧ u.isUnion = false) ∨ (∃ us, u = .union us ∧ t ∈ us) := by
  simp only [flat1, List.mem_flatMap]
  constructor
  · rintro ⟨u, hu, ht⟩
    refine ⟨u, hu, ?_⟩
    cases u <;> simp_all [Ty.isUnion]
  · rintro ⟨u, hu, h⟩
    refine ⟨u, hu, ?_⟩
    rcases h with ⟨rfl, hnu⟩ | ⟨us, rfl, ht⟩
    · cases u <;> simp_all [Ty.isUnion]
    · simpa using ht

/-- the members of `typing.Union[ts]` are exactly the members of its arguments: a value belongs to the union iff it
    belongs to one of the arguments -/
theorem mkUnion_members (ts : List Ty) (hw : ∀ t ∈ ts, t.wf = true) (v : Val) :
    conforms sub ao (mkUnion ts) v = true ↔ ∃ t ∈ ts, conforms sub ao t v = true := by
  constructor
  · intro h
    have hsub : ∀ x ∈ dedupBy Ty.eqv (flat1 ts), x ∈ flat1 ts := dedupBy_subset _ _
    have : ∃ x ∈ flat1 ts, conforms sub ao x v = true := by
      unfold mkUnion at h
      split at h
      · next u heq => exact ⟨u, hsub u (by rw [heq]; simp), h⟩
      · obtain ⟨x, hx, hc⟩ := (conforms_union sub ao _ v).mp h
        exact ⟨x, hsub x hx, hc⟩
    obtain ⟨x, hx, hc⟩ := this
    obtain ⟨u, hu, h'⟩ := (mem_flat1_iff ts x).mp hx
    rcases h' with ⟨rfl, _⟩ | ⟨us, rfl, hxs⟩
    · exact ⟨u, hu, hc⟩
    · exact ⟨.union us, hu, (conforms_union sub ao us v).mpr ⟨x, hxs, hc⟩⟩
  · exact mkUnion_sound sub ao ts hw v

/-- … hence they do not depend on the order in which the arguments arrive (set / dict iteration order, hash seed) -/
theorem mkUnion_perm (ts ts' : List Ty) (hp : ts.Perm ts') (hw : ∀ t ∈ ts, t.wf = true) (v : Val) :
    conforms sub ao (mkUnion ts) v = conforms sub ao (mkUnion ts') v := by
  have hw' : ∀ t ∈ ts', t.wf = true := fun t ht => hw t (hp.mem_iff.mpr ht)
  rw [Bool.eq_iff_iff, mkUnion_members sub ao ts hw, mkUnion_members sub ao ts' hw']
  constructor
  · rintro ⟨t, ht, hc⟩; exact ⟨t, hp.mem_iff.mp ht, hc⟩
  · rintro ⟨t, ht, hc⟩; exact ⟨t, hp.mem_iff.mpr ht, hc⟩

/-- … nor on how often an argument is repeated (duplicate rows, the same trace in several batches) -/
theorem mkUnion_dup (t : Ty) (ts : List Ty) (hw : ∀ u ∈ t :: ts, u.wf = true) (v : Val) :
    conforms sub ao (mkUnion (t :: t :: ts)) v = conforms sub ao (mkUnion (t :: ts)) v := by
  have hw2 : ∀ u ∈ t :: t :: ts, u.wf = true := by
    intro u hu
    rcases List.mem_cons.mp hu with rfl | hu
    · exact hw _ (List.mem_cons_self ..)
    · exact hw u hu
  rw [Bool.eq_iff_iff, mkUnion_members sub ao _ hw2, mkUnion_members sub ao _ hw]
  simp
end

/-- which keys are required in a merged TypedDict does not depend on the order of the merged dicts -/
theorem reqKeys_perm (ts ts' : List Ty) (hp : ts.Perm ts') (hne : ts ≠ []) (s : String) :
    s ∈ reqKeys ts ↔ s ∈ reqKeys ts' := by
  have hne' : ts' ≠ [] := by
    intro h; subst h; exact hne (List.Perm.eq_nil hp)
  rw [mem_reqKeys_iff s ts hne, mem_reqKeys_iff s ts' hne']
  constructor
  · intro h t ht; exact h t (hp.mem_iff.mpr ht)
  · intro h t ht; exact h t (hp.mem_iff.mp ht)

/-- … nor which are optional -/
theorem optKeys_perm (ts ts' : List Ty) (hp : ts.Perm ts') (s : String) : s ∈ optKeys ts ↔ s ∈ optKeys ts' := by
  rw [mem_optKeys_iff, mem_optKeys_iff]
  have e1 : (∃ t ∈ ts, s ∈ t.reqKeySet) ↔ (∃ t ∈ ts', s ∈ t.reqKeySet) :=
    ⟨fun ⟨t, ht, h⟩ => ⟨t, hp.mem_iff.mp ht, h⟩, fun ⟨t, ht, h⟩ => ⟨t, hp.mem_iff.mpr ht, h⟩⟩
  have e2 : (∀ t ∈ ts, s ∈ t.reqKeySet) ↔ (∀ t ∈ ts', s ∈ t.reqKeySet) :=
    ⟨fun h t ht => h t (hp.mem_iff.mpr ht), fun h t ht => h t (hp.mem_iff.mp ht)⟩
  have e3 : (∃ t ∈ ts, s ∈ t.optKeySet) ↔ (∃ t ∈ ts', s ∈ t.optKeySet) :=
    ⟨fun ⟨t, ht, h⟩ => ⟨t, hp.mem_iff.mp ht, h⟩, fun ⟨t, ht, h⟩ => ⟨t, hp.mem_iff.mpr ht, h⟩⟩
  rw [e1, e2, e3]

/-- … and repeating a dict changes neither (multiplicity) -/
theorem reqKeys_dup (t : Ty) (ts : List Ty) (s : String) : s ∈ reqKeys (t :: t :: ts) ↔ s ∈ reqKeys (t :: ts) := by
  rw [mem_reqKeys_iff s _ (by simp), mem_reqKeys_iff s _ (by simp)]
  simp

end MT.C14
