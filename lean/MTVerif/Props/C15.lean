/-
  Props/C15.lean — C15: apply only adds annotations and imports; the program is otherwise untouched.

  `apply` is libcst's ApplyTypeAnnotationsVisitor driven by MonkeyType.  What is MonkeyType's own — which existing
  annotations the stub carries (C13), what the import confinement removes (C16) — has theorems there; the statement below
  restates, for the import remover that runs as part of `apply --pep_563`, that it is the identity on everything that is not
  an import statement, at any nesting depth.  The property as a whole is checked directly on generated modules (AST
  eraser-and-diff, per-position annotations, idempotence).
-/
import MTVerif.Props.C16
import MTVerif.Props.C13
namespace MT.C15
open MT.Imports

/-- the remover never touches a statement that is not an import, whatever is being moved -/
theorem non_imports_untouched (moved : List Item) (i : Nat) : removeStmt moved (.other i) = some (.other i) := rfl

/-- … and never drops or reorders the statements of a compound statement other than its import statements -/
theorem block_structure_kept (moved : List Item) (i : Nat) (body : List Stmt) :
    ∃ body', removeStmt moved (.block i body) = some (.block i body') := ⟨_, rfl⟩

/-- with overwriting off the stub MonkeyType feeds to libcst carries no annotation for a position the source annotates
    (OMIT strategy, C13) — so there is nothing that could overwrite an existing annotation -/
theorem stub_has_no_annotation_for_annotated_positions (p : MT.Anno.Pos) (a : Nat) (h : p.src = some a) :
    MT.Anno.updateArg .omit p = none := MT.C13.omit_blank p a h

/-- applying the confinement twice removes nothing more: the remover is idempotent on what it leaves -/
theorem remove_idempotent_on_source (src : List Stmt) (stub : List Item) (hobj : ∀ i ∈ stub, i.obj.isSome = true) :
    removeStmts (movable (newlyImported stub (itemsOfL src) (starsOfL src)))
      (removeStmts (movable (newlyImported stub (itemsOfL src) (starsOfL src))) src) = src := by
  rw [MT.C16.source_imports_stay src stub hobj, MT.C16.source_imports_stay src stub hobj]

end MT.C15
