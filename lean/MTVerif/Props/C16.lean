/-
  Props/C16.lean — C16: `--pep_563` confines only annotation-only imports and keeps the module importable.

  Proved about MonkeyType's own logic (which items are moved, what the remover deletes), for every module shape:
  no import the source already had is ever touched, wherever it is written (top level, function body, existing TYPE_CHECKING
  block); typing names and the TypedDict base class are never moved.  libcst's own behaviour (where it inserts the
  `from __future__` import and the added imports, how it merges names into existing statements) and "the module imports and
  behaves as before" are observed: the result is parsed, executed in a fresh namespace and the workload re-run.
-/
import MTVerif.Model.Imports
namespace MT.C16
open MT.Imports

/-- nothing the source already imports is "newly imported" -/
theorem new_items_disjoint (stub src : List Item) (stars : List String) :
    ∀ i ∈ movable (newlyImported stub src stars), i ∉ src := by
  intro i hi
  simp only [movable, newlyImported, List.mem_filter, Bool.and_eq_true, Bool.not_eq_true', List.contains_eq_mem,
    decide_eq_false_iff_not] at hi
  exact hi.1.2.1

/-- a name of a module the source star-imports is never moved (libcst adds no import for it, so there is nothing to move;
    before the fix every source `from m import n` was deleted in that situation) -/
theorem star_covered_not_moved (stub src : List Item) (stars : List String) (m n : String) (a : Option String)
    (h : m ∈ stars) : ({ module := m, obj := some n, alias := a } : Item) ∉ movable (newlyImported stub src stars) := by
  intro hi
  simp only [movable, newlyImported, List.mem_filter, Bool.and_eq_true, Bool.not_eq_true', Option.isSome_some,
    Bool.true_and, List.contains_eq_mem, decide_eq_false_iff_not] at hi
  exact hi.1.2.2 h

/-- what is moved is part of what the stub imports -/
theorem moved_from_stub (stub src : List Item) (stars : List String) : ∀ i ∈ movable (newlyImported stub src stars), i ∈ stub := by
  intro i hi
  simp only [movable, newlyImported, List.mem_filter] at hi
  exact hi.1.1

/-- everything else the stub imports that the source lacks is moved: nothing new is left at run time -/
theorem new_items_all_moved (stub src : List Item) (stars : List String) (i : Item) (hi : i ∈ stub) (hs : i ∉ src)
    (hstar : i.module ∉ stars) (ht : i.module ≠ "typing")
    (htd : ¬ (i.module = "mypy_extensions" ∧ i.obj = some "TypedDict")) : i ∈ movable (newlyImported stub src stars) := by
  simp only [movable, newlyImported, List.mem_filter, Bool.and_eq_true, Bool.not_eq_true', List.contains_eq_mem,
    decide_eq_false_iff_not, bne_iff_ne, ne_eq, Bool.and_eq_false_iff]
  refine ⟨⟨hi, hs, Or.inr (by simpa using hstar)⟩, ht, ?_⟩
  by_cases h1 : i.module = "mypy_extensions"
  · by_cases h2 : i.obj = some "TypedDict"
    · exact absurd ⟨h1, h2⟩ htd
    · simp [h1, h2]
  · simp [h1]

/-- typing names stay at runtime -/
theorem typing_not_moved (items : List Item) : ∀ i ∈ movable items, i.module ≠ "typing" := by
  intro i hi
  simp only [movable, List.mem_filter, Bool.and_eq_true, bne_iff_ne, ne_eq] at hi
  exact hi.2.1

/-- the base class of generated TypedDict classes stays at runtime -/
theorem typeddict_base_not_moved (items : List Item) :
    ({ module := "mypy_extensions", obj := some "TypedDict", alias := none } : Item) ∉ movable items := by
  simp [movable]

theorem filter_all_id {α} (p : α → Bool) (l : List α) (h : ∀ a ∈ l, p a = true) : l.filter p = l := by
  induction l with
  | nil => rfl
  | cons a l ih =>
    simp only [List.filter_cons, h a (List.mem_cons_self ..), ↓reduceIte]
    rw [ih (fun x hx => h x (List.mem_cons_of_mem _ hx))]

mutual
/-- a statement none of whose own import items is moved is left exactly as it is — at any nesting depth -/
theorem removeStmt_id (moved : List Item) : ∀ s : Stmt, (∀ i ∈ itemsOf s, i ∉ moved) →
    (∀ i ∈ moved, i.obj.isSome = true) → removeStmt moved s = some s
  | .importMod names, _, hobj => by
      -- `import x` is only removed for an item that is the module itself; MonkeyType's stubs contain none
      simp only [removeStmt]
      have : names.filter (fun n => !removesMod moved n) = names := by
        apply filter_all_id
        intro n _
        simp only [removesMod, Bool.not_eq_true', List.any_eq_false, Bool.and_eq_true, beq_iff_eq, not_and]
        intro i hi _
        have := hobj i hi
        cases h : i.obj <;> simp_all
      rw [this]
      cases names <;> simp
  | .importFrom m names, hs, _ => by
      simp only [removeStmt]
      have : names.filter (fun n => !removesFrom moved m n) = names := by
        apply filter_all_id
        intro n hn
        simp only [removesFrom, Bool.not_eq_true', List.any_eq_false, Bool.and_eq_true, beq_iff_eq, decide_eq_true_eq, not_and]
        intro i hi hm ho
        apply hs { module := m, obj := some n.name, alias := n.asname }
        · simp only [itemsOf, List.mem_map]; exact ⟨n, hn, rfl⟩
        · have : i = { module := m, obj := some n.name, alias := n.asname } := by
            cases i; simp_all
          rw [← this]; exact hi
      rw [this]
      cases names <;> simp
  | .importStar m, _, _ => rfl
  | .other i, _, _ => rfl
  | .block i body, hs, hobj => by
      simp only [removeStmt]
      rw [removeStmts_id moved body (by simpa [itemsOf] using hs) hobj]
theorem removeStmts_id (moved : List Item) : ∀ ss : List Stmt, (∀ i ∈ itemsOfL ss, i ∉ moved) →
    (∀ i ∈ moved, i.obj.isSome = true) → removeStmts moved ss = ss
  | [], _, _ => rfl
  | s :: ss, hs, hobj => by
      simp only [itemsOfL, List.mem_append] at hs
      simp only [removeStmts]
      rw [removeStmt_id moved s (fun i hi => hs i (Or.inl hi)) hobj,
          removeStmts_id moved ss (fun i hi => hs i (Or.inr hi)) hobj]
end

/-- C16: every import the source already had stays where it was — at top level, after docstrings, inside functions, inside
    existing TYPE_CHECKING blocks, aliased or not: removing the moved imports from the source's own statements changes
    nothing, for every module shape and every stub (whose imports are all `from m import n`, as ImportBlockStub renders them). -/
theorem source_imports_stay (src : List Stmt) (stub : List Item) (hobj : ∀ i ∈ stub, i.obj.isSome = true) :
    removeStmts (movable (newlyImported stub (itemsOfL src) (starsOfL src))) src = src := by
  apply removeStmts_id
  · intro i hi hmoved
    exact new_items_disjoint stub (itemsOfL src) (starsOfL src) i hmoved hi
  · intro i hi
    exact hobj i (moved_from_stub _ _ _ i hi)

/-- an import statement that consists only of moved names (the copy libcst added at the top) is deleted -/
theorem added_copy_removed (moved : List Item) (m n : String) (h : ({ module := m, obj := some n, alias := none } : Item) ∈ moved) :
    removeStmt moved (.importFrom m [{ name := n, asname := none }]) = none := by
  have : removesFrom moved m { name := n, asname := none } = true := by
    simp only [removesFrom, List.any_eq_true, Bool.and_eq_true, beq_iff_eq, decide_eq_true_eq]
    exact ⟨_, h, ⟨rfl, rfl⟩, rfl⟩
  simp [removeStmt, this]

/-! non-vacuity: the witnesses of the three defects that were fixed -/
example : removeStmts (movable (newlyImported [⟨"collections", some "OrderedDict", none⟩, ⟨"mypy_extensions", some "TypedDict", none⟩]
    (itemsOfL [.importMod [⟨"collections", none⟩], .importFrom "collections" [⟨"OrderedDict", some "OD"⟩]]) []))
    [.importMod [⟨"collections", none⟩], .importFrom "collections" [⟨"OrderedDict", some "OD"⟩]]
    = [.importMod [⟨"collections", none⟩], .importFrom "collections" [⟨"OrderedDict", some "OD"⟩]] :=
  source_imports_stay _ _ (by decide)

end MT.C16
