/-
  Props/C17.lean — C17: only code the filter admits, outside `__main__`, is ever recorded.
-/
import MTVerif.Model.Filter
import MTVerif.Props.C02
namespace MT.C17
open MT MT.Filter MT.Tracer

/-- default configuration: a code object is admitted iff it comes from a real source file that lies under none of
    the library roots (standard library, site-packages) -/
theorem default_iff (libs : List (List String)) (ci : CodeInfo) :
    defaultFilter libs none ci = true ↔ synthetic ci = false ∧ ∀ l ∈ libs, ¬ l <+: ci.parts := by
  unfold defaultFilter
  cases hs : synthetic ci <;> simp [hs]

/-- with a module allow-list: admitted iff it is a real file and a listed name equals the file's stem or one of the
    path components that remain after the library root is stripped (a listed module or package, wherever installed) -/
theorem allow_iff (libs : List (List String)) (ms : List String) (ci : CodeInfo)
    (hne : (stripLib libs ci.parts).isEmpty = false) :
    defaultFilter libs (some ms) ci = true ↔
      synthetic ci = false ∧ ∃ m ∈ ms, m = ci.stem ∨ m ∈ stripLib libs ci.parts := by
  unfold defaultFilter
  cases hs : synthetic ci <;> simp [hs, hne]

/-- code with a synthetic file name (`<string>`, `<frozen …>`, empty) is never admitted, allow-list or not -/
theorem synthetic_never (libs : List (List String)) (allow : Option (List String)) (ci : CodeInfo)
    (h : synthetic ci = true) : defaultFilter libs allow ci = false := by
  simp [defaultFilter, h]

theorem mem_of_lookupT (fid : FrameId) (t : PTrace) (m : List (FrameId × PTrace)) (h : lookupT fid m = some t) :
    (fid, t) ∈ m := by
  induction m with
  | nil => simp [lookupT] at h
  | cons x m ih =>
    obtain ⟨g, u⟩ := x
    simp only [lookupT] at h
    split at h
    · next hg =>
      have : g = fid := by simpa using hg
      cases h; subst this; exact List.mem_cons_self ..
    · exact List.mem_cons_of_mem _ (ih h)

theorem mem_eraseT (g : FrameId) (x : FrameId × PTrace) (m : List (FrameId × PTrace)) (h : x ∈ eraseT g m) : x ∈ m := by
  induction m with
  | nil => simp [eraseT] at h
  | cons y m ih =>
    obtain ⟨f, t⟩ := y
    simp only [eraseT] at h
    split at h
    · exact List.mem_cons_of_mem _ (ih h)
    · rcases List.mem_cons.mp h with rfl | h
      · exact List.mem_cons_self ..
      · exact List.mem_cons_of_mem _ (ih h)

theorem mem_setT (g : FrameId) (t : PTrace) (x : FrameId × PTrace) (m : List (FrameId × PTrace)) (h : x ∈ setT g t m) :
    x = (g, t) ∨ x ∈ m := by
  simp only [setT, List.mem_cons] at h
  rcases h with h | h
  · exact Or.inl h
  · exact Or.inr (mem_eraseT g x m h)

/-- the invariant: every in-flight and every logged trace belongs to a function that admitted, resolvable code ran -/
def FromAdmitted (cfg : Cfg) (s : State) : Prop :=
  (∀ x ∈ s.traces, ∃ c, cfg.admits c = true ∧ cfg.resolve c = some x.2.func) ∧
  (∀ x ∈ s.log, ∃ c, cfg.admits c = true ∧ cfg.resolve c = some x.2.func)

theorem step_fromAdmitted (cfg : Cfg) (s : State) (e : Ev) (h : FromAdmitted cfg s) : FromAdmitted cfg (step cfg s e) := by
  obtain ⟨ht, hl⟩ := h
  cases e with
  | other f c => exact ⟨ht, hl⟩
  | call f c r a =>
    simp only [step]
    split
    · exact ⟨ht, hl⟩
    · next hadm =>
      have hadm' : cfg.admits c = true := by simpa using hadm
      split
      · exact ⟨ht, hl⟩
      · split
        · exact ⟨ht, hl⟩
        · unfold beginTrace
          split
          · exact ⟨ht, hl⟩
          · next g hg =>
            split
            · exact ⟨ht, hl⟩
            · refine ⟨?_, hl⟩
              intro x hx
              rcases mem_setT f _ x _ hx with rfl | hx
              · exact ⟨c, hadm', hg⟩
              · exact ht x hx
  | ret f c op co sm ty =>
    simp only [step]
    split
    · exact ⟨ht, hl⟩
    · split
      · exact ⟨ht, hl⟩
      · next t hlk =>
        have hq := ht (f, t) (mem_of_lookupT f t s.traces hlk)
        unfold endEvent
        split
        · split
          · exact ⟨ht, hl⟩
          · refine ⟨?_, hl⟩
            intro x hx
            rcases mem_setT f _ x _ hx with rfl | hx
            · exact hq
            · exact ht x hx
        · refine ⟨fun x hx => ht x (mem_eraseT f x _ hx), ?_⟩
          intro x hx
          rcases List.mem_append.mp hx with hx | hx
          · exact hl x hx
          · simp only [List.mem_singleton] at hx
            subst hx
            split <;> exact hq

/-- whatever filter is configured (default, allow-list or custom): functions it rejects never reach the logger —
    every trace ever logged belongs to a function resolved from code the filter admitted; for every history -/
theorem logged_only_admitted (cfg : Cfg) (draws : List Nat) (es : List Ev) :
    ∀ x ∈ (run cfg draws es).log, ∃ c, cfg.admits c = true ∧ cfg.resolve c = some x.2.func := by
  have key : ∀ (es : List Ev) (s : State), FromAdmitted cfg s → FromAdmitted cfg (es.foldl (step cfg) s) := by
    intro es
    induction es with
    | nil => intro s h; exact h
    | cons e es ih => intro s h; exact ih _ (step_fromAdmitted cfg s e h)
  exact (key es _ ⟨by simp, by simp⟩).2

/-- … and functions it accepts (and that are resolvable) always do: a complete life of an admitted, resolvable frame
    is logged, under any filter (`cfg.admits` is arbitrary) -/
theorem accepted_always_logged (cfg : Cfg) (hr : cfg.rate = none) (fid : FrameId) (c : CodeId) (f : FuncId)
    (coro : Bool) (hadm : cfg.admits c = true) (hres : cfg.resolve c = some f)
    (args : List (String × Ty)) (susp : List (Ty × List (String × Ty))) (finOp : Op) (finSem : Sem) (finTy : Ty)
    (hfin : finOp ≠ .yieldValue) (es : List Ev) (draws : List Nat)
    (hlife : es.filter (fun e => e.fid == fid) = MT.C02.lifecycle fid c coro args susp finOp finSem finTy) :
    ∃ t, (fid, t) ∈ (run cfg draws es).log ∧ t.func = f := by
  have := (MT.C02.interleaved_frame_logged_once cfg hr fid c f coro hadm hres args susp finOp finSem finTy hfin es draws hlife).1
  refine ⟨{ func := f, args := args, ret := if finOp = .retValue ∨ finOp = .retConst then some finTy else none,
            yld := MT.C02.yieldsOf coro none susp }, ?_, rfl⟩
  have hm : (fid, ({ func := f, args := args, ret := if finOp = .retValue ∨ finOp = .retConst then some finTy else none,
                     yld := MT.C02.yieldsOf coro none susp } : PTrace)) ∈
      (run cfg draws es).log.filter (fun x => x.1 == fid) := by rw [this]; exact List.mem_singleton.mpr rfl
  exact (List.mem_filter.mp hm).1

/-- `__main__` functions never reach the store -/
theorem main_dropped : storeKeeps "__main__" = false := by decide

theorem others_kept (m : String) (h : m ≠ "__main__") : storeKeeps m = true := by
  simp [storeKeeps, h]

end MT.C17
