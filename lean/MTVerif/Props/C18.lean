/-
  Props/C18.lean — C18: sampling thins traces without distorting them.

  * rate unset, or a draw stream of zeros (what `randrange(1)` produces): the tracer behaves exactly as unsampled
    (`zero_draws_is_unsampled`);
  * a new call that is not sampled changes nothing but the consumed draw (`unsampled_call_leaves_nothing`);
  * for every history, every draw stream and every rate: a frame whose events form one life is either logged exactly as
    it would be without sampling, or not at all, and in both cases the tracer keeps nothing for it afterwards
    (`frame_under_sampling`) — in particular a generator resumed many times can never start a trace in mid-life.
  "About one call in N" is a statement about `random`; it is a statistical test in the harness, not a theorem.
-/
import MTVerif.Props.C02
namespace MT.C18
open MT MT.Tracer MT.C02

/-- a new call that is not sampled leaves no trace and no residue: only the draw is consumed -/
theorem unsampled_call_leaves_nothing (cfg : Cfg) (s : State) (fid : FrameId) (c : CodeId) (args : List (String × Ty))
    (n : Nat) (d : Nat) (ds : List Nat) (hr : cfg.rate = some (n + 1)) (hd : s.draws = d :: ds) (hne : d ≠ 0) :
    step cfg s (.call fid c false args) = (if cfg.admits c then { s with draws := ds } else s) := by
  cases hc : cfg.admits c <;> simp [step, hc, hr, hd, sampleDraw, hne]

/-- the unsampled configuration -/
def noSampling (cfg : Cfg) : Cfg := { cfg with rate := none }

theorem sampleDraw_zeros (rate : Option Nat) (ds : List Nat) (hz : ∀ d ∈ ds, d = 0) :
    (sampleDraw rate ds).1 = false ∧ ∀ d ∈ (sampleDraw rate ds).2, d = 0 := by
  unfold sampleDraw
  split
  · exact ⟨rfl, hz⟩
  · exact ⟨rfl, hz⟩
  · split
    · exact ⟨rfl, by simp⟩
    · next d ds' =>
      have := hz d (List.mem_cons_self ..)
      subst this
      exact ⟨by simp, fun x hx => hz x (List.mem_cons_of_mem _ hx)⟩

/-- with a draw stream of zeros (rate 1: `randrange(1)` is always 0) every call is traced: the log and the per-call
    state are those of the unsampled tracer, step for step -/
theorem zero_draws_is_unsampled (cfg : Cfg) (es : List Ev) :
    ∀ (s s' : State), s.traces = s'.traces → s.log = s'.log → (∀ d ∈ s.draws, d = 0) →
      (es.foldl (step cfg) s).traces = (es.foldl (step (noSampling cfg)) s').traces ∧
      (es.foldl (step cfg) s).log = (es.foldl (step (noSampling cfg)) s').log := by
  induction es with
  | nil => intro s s' ht hl _; exact ⟨ht, hl⟩
  | cons e es ih =>
    intro s s' ht hl hz
    simp only [List.foldl_cons]
    have key : (step cfg s e).traces = (step (noSampling cfg) s' e).traces ∧
        (step cfg s e).log = (step (noSampling cfg) s' e).log ∧ (∀ d ∈ (step cfg s e).draws, d = 0) := by
      cases e with
      | other f c => exact ⟨ht, hl, hz⟩
      | call f c r a =>
        obtain ⟨hd1, hd2⟩ := sampleDraw_zeros cfg.rate s.draws hz
        cases hadm : cfg.admits c with
        | false =>
          have e1 : step cfg s (.call f c r a) = s := by simp [step, hadm]
          have e2 : step (noSampling cfg) s' (.call f c r a) = s' := by simp [step, noSampling, hadm]
          rw [e1, e2]; exact ⟨ht, hl, hz⟩
        | true =>
          cases r with
          | true =>
            have e1 : step cfg s (.call f c true a) = s := by simp [step, hadm]
            have e2 : step (noSampling cfg) s' (.call f c true a) = s' := by simp [step, noSampling, hadm]
            rw [e1, e2]; exact ⟨ht, hl, hz⟩
          | false =>
            have e1 : step cfg s (.call f c false a) =
                beginTrace cfg { s with draws := (sampleDraw cfg.rate s.draws).2 } f c a := by
              simp [step, hadm, hd1]
            have e2 : step (noSampling cfg) s' (.call f c false a) = beginTrace (noSampling cfg) s' f c a := by
              simp [step, noSampling, hadm, sampleDraw]
            rw [e1, e2]
            unfold beginTrace
            simp only [noSampling, ht]
            split
            · exact ⟨rfl, hl, hd2⟩
            · split
              · exact ⟨rfl, hl, hd2⟩
              · exact ⟨rfl, hl, hd2⟩
      | ret f c op co sm ty =>
        cases hadm : cfg.admits c with
        | false =>
          have e1 : step cfg s (.ret f c op co sm ty) = s := by simp [step, hadm]
          have e2 : step (noSampling cfg) s' (.ret f c op co sm ty) = s' := by simp [step, noSampling, hadm]
          rw [e1, e2]; exact ⟨ht, hl, hz⟩
        | true =>
          cases hlk : lookupT f s'.traces with
          | none =>
            have e1 : step cfg s (.ret f c op co sm ty) = s := by simp [step, hadm, ht, hlk]
            have e2 : step (noSampling cfg) s' (.ret f c op co sm ty) = s' := by simp [step, noSampling, hadm, hlk]
            rw [e1, e2]; exact ⟨ht, hl, hz⟩
          | some t =>
            have e1 : step cfg s (.ret f c op co sm ty) = endEvent s f t op co ty := by simp [step, hadm, ht, hlk]
            have e2 : step (noSampling cfg) s' (.ret f c op co sm ty) = endEvent s' f t op co ty := by
              simp [step, noSampling, hadm, hlk]
            rw [e1, e2]
            unfold endEvent
            split
            · split
              · exact ⟨ht, hl, hz⟩
              · exact ⟨by simp [ht], hl, hz⟩
            · exact ⟨by simp [ht], by simp [hl], hz⟩
    exact ih _ _ key.1 key.2.1 key.2.2

/-! ### one frame under sampling -/

/-- an event of frame `fid` other than a new call acts on the frame's view only through that view, whatever the rate -/
theorem step_same_frame_nonstart (cfg : Cfg) (fid : FrameId) (s s' : State) (e : Ev) (h : e.fid = fid)
    (hns : ∀ c a, e ≠ .call fid c false a)
    (hv : view fid s = view fid s') : view fid (step cfg s e) = view fid (step (noSampling cfg) s' e) := by
  cases e with
  | other f c => exact hv
  | call f c r a =>
    simp only [Ev.fid] at h; subst h
    cases r with
    | false => exact absurd rfl (hns c a)
    | true =>
      simp only [step, noSampling]
      split
      · exact hv
      · exact hv
  | ret f c op co sm ty =>
    simp only [Ev.fid] at h; subst h
    have hl : lookupT f s.traces = lookupT f s'.traces := by
      simp only [view, Prod.mk.injEq] at hv; exact hv.1
    cases hadm : cfg.admits c with
    | false =>
      have e1 : step cfg s (.ret f c op co sm ty) = s := by simp [step, hadm]
      have e2 : step (noSampling cfg) s' (.ret f c op co sm ty) = s' := by simp [step, noSampling, hadm]
      rw [e1, e2]; exact hv
    | true =>
      cases hlk : lookupT f s'.traces with
      | none =>
        have e1 : step cfg s (.ret f c op co sm ty) = s := by simp [step, hadm, hl, hlk]
        have e2 : step (noSampling cfg) s' (.ret f c op co sm ty) = s' := by simp [step, noSampling, hadm, hlk]
        rw [e1, e2]; exact hv
      | some t =>
        have e1 : step cfg s (.ret f c op co sm ty) = endEvent s f t op co ty := by simp [step, hadm, hl, hlk]
        have e2 : step (noSampling cfg) s' (.ret f c op co sm ty) = endEvent s' f t op co ty := by
          simp [step, noSampling, hadm, hlk]
        rw [e1, e2]; exact endEvent_same f s s' t op co ty hv

/-- while frame `fid` has no entry, its suspensions, resumptions and final return change nothing for it -/
theorem step_absent_nonstart (cfg : Cfg) (fid : FrameId) (s : State) (e : Ev)
    (hns : ∀ c a, e ≠ .call fid c false a) (habs : lookupT fid s.traces = none) :
    view fid (step cfg s e) = view fid s := by
  by_cases he : e.fid = fid
  · cases e with
    | other f c => rfl
    | call f c r a =>
      simp only [Ev.fid] at he; subst he
      cases r with
      | false => exact absurd rfl (hns c a)
      | true =>
        simp only [step]
        split <;> rfl
    | ret f c op co sm ty =>
      simp only [Ev.fid] at he; subst he
      simp only [step, habs]
      split <;> rfl
  · exact step_other_frame cfg fid s e he

/-- from a point where frame `fid` has no entry and no new call of it is still to come, nothing is ever recorded for it -/
theorem absent_stays_absent (cfg : Cfg) (fid : FrameId) (es : List Ev)
    (hns : ∀ e ∈ es, ∀ c a, e ≠ .call fid c false a) :
    ∀ s : State, lookupT fid s.traces = none → view fid (es.foldl (step cfg) s) = view fid s := by
  induction es with
  | nil => intro s _; rfl
  | cons e es ih =>
    intro s habs
    simp only [List.foldl_cons]
    have h1 := step_absent_nonstart cfg fid s e (hns e (List.mem_cons_self ..)) habs
    have habs' : lookupT fid (step cfg s e).traces = none := by
      have := congrArg Prod.fst h1; simpa [view, habs] using this
    rw [ih (fun e' he' => hns e' (List.mem_cons_of_mem _ he')) _ habs', h1]

/-- after the frame's call, sampling plays no role for it: the rest of the history acts as in the unsampled tracer -/
theorem after_start_locality (cfg : Cfg) (fid : FrameId) (es : List Ev)
    (hns : ∀ e ∈ es, ∀ c a, e ≠ .call fid c false a) :
    ∀ s s' : State, view fid s = view fid s' →
      view fid (es.foldl (step cfg) s) =
        view fid ((es.filter (fun e => e.fid == fid)).foldl (step (noSampling cfg)) s') := by
  induction es with
  | nil => intro s s' h; exact h
  | cons e es ih =>
    intro s s' h
    have hns' := fun e' he' => hns e' (List.mem_cons_of_mem _ he')
    simp only [List.foldl_cons, List.filter_cons]
    by_cases he : e.fid = fid
    · have : (e.fid == fid) = true := by simpa using he
      simp only [this, ↓reduceIte, List.foldl_cons]
      exact ih hns' _ _ (step_same_frame_nonstart cfg fid s s' e he (hns e (List.mem_cons_self ..)) h)
    · have : (e.fid == fid) = false := by simpa using he
      simp only [this, Bool.false_eq_true, ↓reduceIte]
      exact ih hns' _ _ ((step_other_frame cfg fid s e he).trans h)

/-- C18 for every history, draw stream and rate: the events of frame `fid` form one life — a new call `call` at some
    point (`pre ++ call :: post`, no other new call of that frame, none of its events before) whose remaining events
    are `rest`.  Then the frame is either logged exactly as the unsampled tracer logs that life, or not logged at all;
    afterwards the tracer keeps nothing for it. -/
theorem frame_under_sampling (cfg : Cfg) (fid : FrameId) (c : CodeId) (f : FuncId) (coro : Bool)
    (hadm : cfg.admits c = true) (hres : cfg.resolve c = some f)
    (args : List (String × Ty)) (susp : List (Ty × List (String × Ty))) (finOp : Op) (finSem : Sem) (finTy : Ty)
    (hfin : finOp ≠ .yieldValue) (pre post : List Ev) (draws : List Nat)
    (hpre : ∀ e ∈ pre, e.fid ≠ fid)
    (hpost : post.filter (fun e => e.fid == fid) =
      (susp.flatMap (fun x => suspension fid c coro x.1 x.2)) ++ [.ret fid c finOp coro finSem finTy])
    (hns : ∀ e ∈ post, ∀ c' a, e ≠ .call fid c' false a) :
    let s := run cfg draws (pre ++ .call fid c false args :: post)
    let tr : PTrace := { func := f, args := args,
                         ret := if finOp = .retValue ∨ finOp = .retConst then some finTy else none,
                         yld := yieldsOf coro none susp }
    (s.log.filter (fun x => x.1 == fid) = [(fid, tr)] ∨ s.log.filter (fun x => x.1 == fid) = []) ∧
    lookupT fid s.traces = none := by
  intro s tr
  -- before the call: only other frames
  let s0 : State := { traces := [], log := [], draws := draws }
  have h0 : view fid (pre.foldl (step cfg) s0) = (none, []) := by
    have : ∀ (es : List Ev) (st : State), (∀ e ∈ es, e.fid ≠ fid) → view fid (es.foldl (step cfg) st) = view fid st := by
      intro es
      induction es with
      | nil => intro st _; rfl
      | cons e es ih =>
        intro st h
        simp only [List.foldl_cons]
        rw [ih _ (fun e' he' => h e' (List.mem_cons_of_mem _ he')), step_other_frame cfg fid st e (h e (List.mem_cons_self ..))]
    rw [this pre s0 hpre]; rfl
  have hs : s = post.foldl (step cfg) (step cfg (pre.foldl (step cfg) s0) (.call fid c false args)) := by
    simp only [s, run, List.foldl_append, List.foldl_cons, s0]
  generalize hs1 : pre.foldl (step cfg) s0 = s1 at h0 hs
  have habs1 : lookupT fid s1.traces = none := by have := congrArg Prod.fst h0; simpa [view] using this
  have hlog1 : s1.log.filter (fun x => x.1 == fid) = [] := by have := congrArg Prod.snd h0; simpa [view] using this
  -- the call: skipped or started
  by_cases hskip : (sampleDraw cfg.rate s1.draws).1 = true
  · -- not sampled: nothing is ever recorded
    have hst : step cfg s1 (.call fid c false args) = { s1 with draws := (sampleDraw cfg.rate s1.draws).2 } := by
      simp [step, hadm, hskip]
    have hv := absent_stays_absent cfg fid post hns { s1 with draws := (sampleDraw cfg.rate s1.draws).2 } habs1
    rw [hs, hst]
    simp only [view, Prod.mk.injEq] at hv
    exact ⟨Or.inr (by rw [hv.2]; exact hlog1), by rw [hv.1]; exact habs1⟩
  · -- sampled: from here on the frame is handled as by the unsampled tracer
    have hst : step cfg s1 (.call fid c false args) =
        beginTrace cfg { s1 with draws := (sampleDraw cfg.rate s1.draws).2 } fid c args := by
      simp [step, hadm, hskip]
    have hbt : view fid (beginTrace cfg { s1 with draws := (sampleDraw cfg.rate s1.draws).2 } fid c args) =
        view fid (step (noSampling cfg) s1 (.call fid c false args)) := by
      simp only [step, noSampling, hadm, sampleDraw, Bool.not_true, Bool.false_eq_true, ↓reduceIte]
      exact beginTrace_same _ fid _ _ c args rfl
    have hloc := after_start_locality cfg fid post hns _ _ hbt
    rw [hpost] at hloc
    have hone := lifecycle_logged_once (noSampling cfg) rfl fid c f coro hadm hres args susp finOp finSem finTy hfin s1 habs1
    simp only [lifecycle, List.cons_append, List.foldl_cons] at hone
    rw [hs, hst]
    simp only [view, Prod.mk.injEq] at hloc
    refine ⟨Or.inl ?_, ?_⟩
    · rw [hloc.2, hone.1, List.filter_append, hlog1]; simp [tr]
    · rw [hloc.1, hone.2]

end MT.C18
