#!/bin/bash
# Run the repository's pinned test suite (guard off) on a tree (default /repo) and compare with BASELINE.json's stable set.
# usage: tools/baseline.sh [repo_dir]
REPO=${1:-/repo}
OUT=$(mktemp /tmp/mtv_junit.XXXXXX.xml)
cd "$REPO" && env -u MONKEYTYPE_VERIF /venv/bin/python -m pytest -ra -q -p no:cacheprovider --timeout=900 --continue-on-collection-errors --junitxml="$OUT" >/dev/null 2>&1
/venv/bin/python - "$OUT" <<'PY'
import json, sys, xml.etree.ElementTree as ET
base = json.load(open('/root/.vp/BASELINE.json'))
stable = set(base['stable_pass'])
passed = set()
failed = set()
for tc in ET.parse(sys.argv[1]).getroot().iter('testcase'):
    name = tc.get('classname') + '::' + tc.get('name')
    bad = any(c.tag in ('failure', 'error', 'skipped') for c in tc)
    (failed if bad else passed).add(name)
missing = sorted(stable - passed)
print(f"passed={len(passed)} failed={len(failed)} stable_missing={len(missing)}")
for m in missing: print("  MISSING", m)
extra = sorted(passed - stable)
for m in extra: print("  NEWLY-PASSING", m)
sys.exit(1 if missing else 0)
PY
rc=$?
rm -f "$OUT"
exit $rc
