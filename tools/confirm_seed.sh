#!/bin/bash
# Confirm a seeded change: demo passes on clean HEAD, patch applies, pinned suite still passes, demo fails with the patch.
# usage: tools/confirm_seed.sh <seeded/dir containing patch.diff and demo.py>
D=$(realpath "$1")
W=$(mktemp -d /tmp/mtv_seedconf.XXXXXX)
git -C /repo worktree add --detach -f "$W" HEAD >/dev/null 2>&1 || { echo "worktree failed"; exit 2; }
trap 'git -C /repo worktree remove --force "$W" >/dev/null 2>&1; rm -rf "$W"' EXIT
# where the demonstration expects to live inside the worktree (round-1 seeds: the root; round-2 seeds: _seed/demo.py)
DP=$(cat "$D/demo_path" 2>/dev/null || echo seed_demo.py)
mkdir -p "$W/$(dirname "$DP")"
cp "$D/demo.py" "$W/$DP"
(cd "$W" && PYTHONPATH="$W" timeout 600 /venv/bin/python "$DP" >/tmp/mtv_seed_clean.out 2>&1); rc_clean=$?
git -C "$W" apply "$D/patch.diff" || { echo "PATCH DOES NOT APPLY"; exit 2; }
/verif/tools/baseline.sh "$W"; rc_base=$?
(cd "$W" && PYTHONPATH="$W" timeout 600 /venv/bin/python "$DP" >/tmp/mtv_seed_mut.out 2>&1); rc_mut=$?
echo "demo on clean: rc=$rc_clean ($(tail -1 /tmp/mtv_seed_clean.out))"
echo "suite with patch: rc=$rc_base"
echo "demo with patch: rc=$rc_mut ($(tail -1 /tmp/mtv_seed_mut.out | cut -c1-200))"
if [ $rc_clean = 0 ] && [ $rc_base = 0 ] && [ $rc_mut != 0 ]; then echo CONFIRMED; exit 0; else echo NOT-CONFIRMED; exit 1; fi
