#!/usr/bin/env python3
"""Regenerate MANIFEST.json from the table below (kept in one place so it stays valid)."""
import json, subprocess

PROPS = [json.loads(l)["id"] for l in open("/verif/properties.jsonl")]

def repo_commits(prefix):
    out = subprocess.run(["git", "-C", "/repo", "log", "--format=%h %s"], capture_output=True, text=True).stdout
    return [l.split()[0] for l in out.splitlines() if l.split(" ", 1)[1].startswith(prefix)]

CLAIMED = {
 "C01": dict(
   text=("Lean 4 composition theorem MT.C01.pipeline_sound: for every list of well-formed observed values at one position, every "
         "max_typed_dict_size, every rewriter configuration of the quantifier (none / one shipped rewriter / default chain) and every list "
         "of stored rows whose members are exactly the encodings of the per-call types (any order, any multiplicity), the type stub "
         "generation emits - decode (skipping undecodable rows), merge, rewrite - admits every observed value; with emitted_is_traced / "
         "generator_annotation / plain_annotation for what the strategy flags put at the position. It chains C04 (getType / shrink "
         "soundness, tight reading of Any from C05), C07 (rewriters never narrow), C08 (round trip) and C13. The last step - the rendered "
         "text, evaluated with the stub's own names and generated classes, is that type - is a theorem too (pipeline_text_sound_td, for "
         "every size limit, through C11.rendered_denotes), and the stub-time size limit of C06 is the identity on a history recorded under "
         "the same limit and loses no value under any other (stub_time_limit_is_identity, position_admits_any_limit). The check runs "
         "generated programs under monkeytype.trace into a real SQLiteStore, runs `stub` through cli.main for k x rewriter x flags, "
         "evaluates the stub text with only the names it provides and tests every value the program reported against its position's "
         "annotation with the reference conformance oracle. For TypedDict-free emitted types - which is every emitted type at the default "
         "size limit 0 (default_limit_noTD, via rewriters keep TypedDict-freeness) - the theorem reaches the stub text: the rendered, "
         "module-stripped annotation evaluated in a namespace where its names denote what was rendered admits every observed value "
         "(pipeline_text_sound, default_pipeline_text_sound, through C11.rendered_denotes_partial)."),
   ref="DESIGN.md section 4 C01",
   note=("hypotheses of pipeline_sound: values well-formed, types storable (classes importable under their own names); histories below "
         "the query limit; for the text step the decidable side conditions of C11.rendered_denotes (ClassesIn, namesOkT). That annotation "
         "text parses to the expression the model prints is CPython's (observed). Two open findings shared with C11 "
         "(KF-C01-td-class-name-collision, KF-C01-same-name-two-modules)"),
   technique="Lean 4 proof (composition of the C04/C05/C07/C08/C13 theorems) + end-to-end differential runs of the real tracer, store and CLI against a ground-truth recorder"),
 "C04": dict(
   text=("Lean 4 theorems over a hand-written model of get_type/shrink_types/Union/TypedDict merge: for every list of "
         "well-formed values, every nesting and every k the inferred type admits every value (MT.C04.infer_sound), is well-formed, "
         "and Python == on types identifies only equal-membership types; inference is total (termination proof of shrink); and the "
         "inferred type does not depend on the order or multiplicity of the values: two collections with the same members give == types "
         "(infer_order_independent, from Lemmas/ShrinkPerm.shrink_setEq, which rests on Ty.eqv being an equivalence relation, "
         "Lemmas/EqvEquiv). The model is tied to /repo on every run by differential testing (exhaustive small scope + seeded random "
         "multisets x 6 limits) and the property is evaluated directly on the implementation with an independent conformance oracle, "
         "including permuted and duplicated variants of every multiset."),
   ref="DESIGN.md section 4 C04, section 3",
   note=("trusted: Lean kernel + propext/Classical.choice/Quot.sound; the hand-written model (Model/Ty,Eqv,Infer) is tied to the code only by "
         "correspondence on generated cases; hypotheses: values well-formed (string keys of a dict distinct, true of every Python dict)"),
   technique="Lean 4 proof (structural + well-founded induction; functional induction over shrink for order independence) over a hand-written model + differential correspondence check"),
 "C06": dict(
   text=("Lean 4 theorems: every TypedDict node inside get_type(v,k), inside any merge of inferred types and inside infer k vs has between 1 "
         "and k keys (MT.C06.getType_bound/shrink_bound/infer_bound), so none exists at k=0 (limit_zero_no_typed_dict); a value becomes a "
         "TypedDict iff it is a non-empty exact dict of at most k keys that are all identifier strings (typed_dict_iff, "
         "typed_dict_keys_are_strings); the mixed-shape rewrite leaves no TypedDict; at stub time, whatever limits the stored traces were "
         "recorded under, the merge of the size-limited stored types has only TypedDicts of 1..k keys at every depth, none at 0 "
         "(stub_limit_enforced, stub_limit_zero_no_typed_dict, over Model/Enforce.lean = RewriteOversizeTypedDictToDict), and that rewrite "
         "is the identity at the traces' own limit and never narrows. Tied to /repo by differential testing of get_type/shrink_types against the model and of the Lean size "
         "predicate against an independent Python walk; the store round trip and the rendered TypedDict class stubs are checked on the "
         "real code for every generated case."),
   ref="DESIGN.md section 4 C06",
   note=("trusted: Lean kernel + standard axioms; hand-written model tied by correspondence on generated cases; the JSON round trip and "
         "ReplaceTypedDictsWithStubs clauses are observed on the implementation (direct oracle), not yet modelled (partial)"),
   technique="Lean 4 proof (invariant by well-founded induction) over a hand-written model + differential correspondence check"),
 "C05": dict(
   text=("Lean 4 theorems: the full lock-step witness statement (MT.C05.inferWitnessed_holds) - for every TypedDict size limit and every "
         "non-empty collection of well-formed values of any shape, the inferred type is witnessed by those values at every nesting "
         "position: every class named is the exact class of an observed value, every union alternative is inhabited, tuple types have "
         "observed tuples of that length, Any only below an observed empty container, a required TypedDict key is in every observed dict "
         "and an optional one in some but not all, every field type is witnessed by the values under its key. Proof: `witnessed` sees the "
         "observations as a set, pools observations of one type and respects == (Lemmas/WitnessTD); the TypedDict -> Dict rewrite keeps a "
         "type witnessed and shrink_types of types that each carry their own observations is witnessed by all of them "
         "(Lemmas/WitnessMerge.shrink_witnessed_groups, functional induction over shrink with the invariants of inferred types: normal "
         "form, TypedDict-free union members, 1..k keys, disjoint required/optional keys); a value witnesses its own type "
         "(Lemmas/WitnessFull). Also: under the tight reading of Any every observed value is a member (any_only_for_empty_containers); "
         "merged_keys / merged_shape. Tied to /repo by comparing inference results and the Lean `witnessed` with an independent Python "
         "twin on the implementation for every generated multiset."),
   ref="DESIGN.md section 4 C05",
   note=("trusted: Lean kernel + standard axioms, hand-written model tied by correspondence (infer + witness oracle pair incl. widened negative "
         "controls); hypothesis: values well-formed (string keys of a dict distinct, true of every Python dict)"),
   technique="Lean 4 proof over a hand-written model (structural, mutual and functional induction) + executable formal witness oracle + differential correspondence check"),
 "C07": dict(
   text=("Lean 4 theorems over a model of the GenericTypeRewriter traversal and the five shipped overrides: every rewriter alone, the "
         "default chain and any chain without RemoveEmptyContainers admit every (tight) inhabitant of the input (never_narrows, "
         "default_chain_never_narrows, chain_never_narrows_usual), in particular every observed value of every inferred type "
         "(default_chain_on_inferred, composing with C05's tight-reading theorem); each rewriter leaves a type unchanged unless its documented "
         "trigger occurs (unchanged_without_trigger); well-formedness is preserved; rewriting is total by construction. Tied to /repo by "
         "differential testing of every shipped rewriter, the default chain and ordered pairs on an exhaustive small-scope + random type "
         "grammar and on inferred types; narrowing, crashes and untriggered changes are also checked directly on the implementation."),
   ref="DESIGN.md section 4 C07",
   note=("trusted: Lean kernel + standard axioms; hand-written model tied by correspondence; class-table hypotheses (reflexive, transitive, "
         "base-is-superclass) are decided for the concrete fixture table on every run; object identity (`is`) of typing objects is modelled "
         "as strict structural equality (typing's subscription cache)"),
   technique="Lean 4 proof (mutual structural induction over the rewriter traversal) + differential correspondence check"),
 "C08": dict(
   text=("Lean 4 theorems over a model of type_to_dict/type_from_dict and CallTraceRow: every storable, normal type decodes back to exactly "
         "itself at any nesting depth (type_roundtrip: nested and optional-key TypedDicts, Tuple[()], Tuple[T, ...], Type[C], unions), and every "
         "type the tracer can record or the merge can build is normal (Lemmas/Normal: getType_normal, shrink_normal), so it round-trips exactly as "
         "soon as its classes are importable (recorded_type_roundtrip, inferred_type_roundtrip); every "
         "trace of an importable function of every kind (plain, classmethod, read-only property, functools.wraps chain) decodes back to the "
         "same function, argument, return and yield types (trace_roundtrip), absent kept distinct from NoneType (absent_iff_null, "
         "maybe_roundtrip); settable properties are rejected. Tied to /repo by comparing the JSON the implementation writes with the model's, "
         "the decoder on good and corrupted JSON (error classes), rows of traces both ways; the round trip and 'structure only' are also "
         "evaluated directly on the implementation."),
   ref="DESIGN.md section 4 C08",
   note=("trusted: Lean kernel + standard axioms; hand-written model tied by correspondence; the import system is abstracted as a lookup "
         "table built from the live fixture package; JSON object member order is canonicalised (json.dumps sorts keys)"),
   technique="Lean 4 proof (round-trip by mutual structural induction) over a hand-written model + differential correspondence check"),
 "C10": dict(
   text=("Lean 4 theorems over the same decoder plus a model of cli.get_stub's loop: each stale kind of the quantifier raises an error of the "
         "caught MonkeyTypeError family (function_gone, function_now_other/class/settable_property, class_gone, class_now_non_type); for "
         "every interleaving of decodable and stale rows the traces handed to stub generation are exactly those of the decodable rows alone, "
         "the exit status is 0, and the skipped count is reported (skip_stale); nothing decodable => 'No traces found' (none_decodable). Tied "
         "to /repo by running the real `stub`/`apply` CLI on SQLite files populated directly with 12 stale kinds interleaved with valid rows "
         "and comparing exit status, stdout/file content (against the valid-rows-only run) and stderr with the model."),
   ref="DESIGN.md section 4 C10",
   note=("trusted: Lean kernel + standard axioms; hand-written model tied by correspondence; 'output equals what the decodable traces alone "
         "produce' uses that stub generation is a function of the decoded traces (C14); malformed rows (bad JSON, wrong arity) are outside the "
         "quantifier and proved to propagate (malformed_propagates)"),
   technique="Lean 4 proof (induction over the row list) over a hand-written model + differential correspondence check against the real CLI"),
 "C09": dict(
   text=("Lean 4 theorems over a state-machine model of the SQLite store (state = committed rows; add is one atomic step): for every "
         "history a query returns min(n,d) distinct rows, each committed, with module exactly m and qualified name literally starting "
         "with p (filter_spec, filter_complete); list_modules is exactly the set of modules with rows (listModules_spec); a batch adds all "
         "its serialisable rows, unserialisable ones are skipped, an interrupted write adds none, reopening changes nothing, and the "
         "answers are invariant under any reordering of whole batches across connections (mem_run, adds_commute, filter_set_commutes). "
         "Tied to /repo by running the same histories on a real file-backed SQLiteStore through several connections, with SQLite "
         "progress-handler aborts at every VM step of a batch, concurrent writer processes and writers SIGKILLed inside the insert; an "
         "independent Python set oracle evaluates the property directly."),
   ref="DESIGN.md section 4 C09",
   note=("partial: that SQLite rolls back an interrupted/killed transaction and serialises concurrent writers is assumed by the theorems "
         "(one add = one step) and observed on the real engine at enumerated points; which rows a LIMIT keeps under date ties is unspecified "
         "and compared as subset+count"),
   technique="Lean 4 proof (invariant / refinement to a list-of-rows spec by induction over the operation history) + differential correspondence on real SQLite"),
 "C02": dict(
   text=("Lean 4 theorems over a state-machine model of CallTracer (events as the tracer sees them: frame, code, RESUME argument, last-opcode "
         "class, coroutine flag, get_type of entry locals / return arg): for every event history, what is recorded for a frame does not depend on "
         "the events of any other frame however they are nested or interleaved (frame_locality); a frame that is called, suspends any number of "
         "times and finishes is logged exactly once with the argument types of its call, the union of exactly its yielded types (none for a "
         "coroutine's awaits), its return type iff it returned, leaving no per-call state (lifecycle_logged_once, interleaved_frame_logged_once); "
         "the log's frames are a subsequence, in order, of the frames of the finishing events (log_in_completion_order); "
         "rejected code is ignored. Tied to /repo by recording, from outside, the event stream the real tracer saw on generated programs and "
         "replaying it through the model; the real log is also compared with the ground truth every generated function records about itself."),
   ref="DESIGN.md section 4 C02",
   note=("partial: the mapping from a Python program to its profile events and opcodes is CPython's (observed, monitored for well-formedness); "
         "the function a code object resolves to is read from the tracer's cache and attribution is checked directly; for an asynchronous "
         "generator the model's coroutine flag stands for 'this suspension is an await' (CPython hands a yielded value over wrapped)"),
   technique="Lean 4 proof (locality + lifecycle by induction over event histories) + differential correspondence by event-stream replay"),
 "C18": dict(
   text=("Lean 4 theorems over the same state machine with a draw stream: a zero draw stream (rate 1) behaves step for step as the unsampled "
         "tracer (zero_draws_is_unsampled); an unsampled new call changes nothing but the consumed draw; for every history, draw stream and rate a "
         "frame is either logged exactly as unsampled or not at all, and nothing is kept for it afterwards (frame_under_sampling) — a resumed "
         "generator can never start a trace in mid-life. Tied to /repo by replaying recorded event streams and recorded random draws through the "
         "model for rates {None,1,2,3,10,100}; logged traces are compared with ground truth and with the unsampled run of the same workload "
         "(incl. asynchronous generators). 'About 1 in N' is a labelled statistical test on the recorded draws."),
   ref="DESIGN.md section 4 C18",
   note=("partial: uniformity of random.randrange is not modelled (binomial test only); CPython's event stream observed as in C02"),
   technique="Lean 4 proof (simulation + per-frame case analysis over event histories and draw streams) + differential correspondence by event-stream replay"),
 "C17": dict(
   text=("Lean 4 theorems: the default filter admits a code object iff it has a real file name and its resolved path lies under no library "
         "root (default_iff); with an allow-list iff a listed name equals the file stem or a path component left after stripping the library "
         "root (allow_iff); synthetic file names are never admitted; for every event history and any filter, every trace the tracer logs "
         "belongs to a function resolved from admitted code (logged_only_admitted) and every complete life of an admitted resolvable frame "
         "is logged (accepted_always_logged); the store logger drops __main__. Tied to /repo by evaluating the real default_code_filter on "
         "code objects compiled from standard-library / site-packages / generated modules (incl. symlinked files and directories, synthetic "
         "names, equal code objects under two file names in both orders) against the model and an independent realpath oracle; custom filters "
         "over random subsets of generated programs; `monkeytype run` of generated scripts."),
   ref="DESIGN.md section 4 C17",
   note=("partial: Path.resolve / sysconfig / os.environ are the runtime's (inputs of the model); the allow-list oracle follows the property's "
         "reading (import-path components) — the code matches any component of the absolute path for files outside the library roots (watch item)"),
   technique="Lean 4 proof (decision logic + invariant over event histories) + differential correspondence on enumerated code objects"),
 "C03": dict(
   text=("Lean 4 theorems about the two channels through which the tracer could reach the program: type collection applies to any object "
         "only `type()` or a walk of an exact builtin container, at every nesting depth (only_exact_containers_are_traversed); an Exception "
         "raised by function lookup, type collection or logger.log never leaves the profiler callback and leaves the state consistent "
         "(callback_never_raises_exception, callback_ok, log_failure_leaves_no_entry, no_faults_is_step); on exit of the tracing context the "
         "previous profiler is back, the logger flushed exactly once, the program's own outcome preserved (context_restores_and_flushes_once). "
         "Tied to /repo by running tripwire workloads (attribute hooks, __class__ overrides, descriptors, container subclasses, journalling "
         "hash/eq/bool/repr, metaclass checks; as args, returns, yields, dict keys, globals, callable outer locals) untraced and traced under "
         "every logger fault, exit kind and k, comparing journal, results, exceptions, stdout, profiler and flush count."),
   ref="DESIGN.md section 4 C03",
   note=("partial: 'same results/exceptions/output with and without tracing' is a statement about CPython executing a program: observed "
         "differentially on the tripwire workloads, not proved; the traced/untraced runs share one interpreter"),
   technique="Lean 4 proof (case analysis of the guarded callback and context manager; structural induction over values) + differential tripwire runs"),
 "C13": dict(
   text=("Lean 4 theorems stating the decision logic of update_signature_args / update_signature_return outright, for every position of a "
         "signature of any length: REPLICATE keeps source annotations and fills unannotated traced positions, OMIT blanks annotated positions "
         "and fills the others, IGNORE gives every traced position the traced type, no mode invents an annotation for a position with neither, "
         "the receiver never gets a traced type, a generator's return is Iterator[yield] or Generator[yield, None, return] with the exact side "
         "conditions, an annotation with a None default is shown as Optional. Tied to /repo by comparing get_updated_definition on generated "
         "annotated signatures x traced subsets x strategies x return/yield combinations with the model and with the property's own table; a "
         "sample goes through the real `stub` CLI with each flag."),
   ref="DESIGN.md section 4 C13",
   note="trusted: Lean kernel + standard axioms; hand-written model tied by correspondence; source annotations are opaque to the model (identity only)",
   technique="Lean 4 proof (decision table by case analysis, lifted to lists) + differential correspondence"),
 "C12": dict(
   text=("Lean 4 theorem over a token-level model of render_parameter/render_signature and of Python's parameter-list grammar: for every "
         "parameter list whose kinds are in the order Python allows, reading the rendered list back gives exactly the real parameters — "
         "names, kinds, order, presence of defaults — and the tokens do not depend on the line width (params_roundtrip, "
         "params_roundtrip_any_width, layout_independent); and over a model of build_module_stubs (a tree of dicts with Python's "
         "dict semantics): for every list of entries, of any class paths and in any order, every function sits exactly once at its class "
         "path and nothing else is there (each_function_once, later_entry_wins). Tied to /repo by lexing the real render_signature output (3 widths) against "
         "the model's tokens for all valid kind sequences up to 4 parameters and random longer ones; the whole stub of generated modules "
         "(every function kind, classes one and two levels deep, coroutines, generators, random traced subsets) is parsed with ast and "
         "compared with inspect.signature: each traced function exactly once inside its class path, decorator by kind, async, receiver "
         "unannotated, nothing untraced; two modules with same-named classes are built in one call; the model tree is compared with "
         "the real nesting of ModuleStub / ClassStub (corr.C12.moduleTree)."),
   ref="DESIGN.md section 4 C12",
   note=("partial: 'the stub parses as Python' and the placement/decorator clauses are observed with CPython's parser on generated modules; "
         "Lean proves the parameter-list round trip on tokens (text lexing is the harness's)"),
   technique="Lean 4 proof (induction over the parameter list with the renderer's and parser's state machines) + differential correspondence + ast/inspect oracle"),
 "C11": dict(
   text=("Lean 4 theorems MT.C11.rendered_denotes (generated TypedDict classes included: Model/TDStub.lean models "
         "ReplaceTypedDictsWithStubs - hint threading, class stubs in emission order, per-field strip lists, class text and stub order - "
         "and evaluation with a class environment: forward references, total=False inheritance, shadowing, fuel = nesting depth; for every "
         "well-formed type, hint, name table, strip lists, namespace and class environment in which every generated class is what its name "
         "denotes (ClassesIn) and every other name denotes what was rendered (namesOkT), the annotation evaluates to a type with exactly the "
         "members of the rendered type) and MT.C11.rendered_denotes_partial over a model of RenderAnnotation (expression tree + text), the module-prefix "
         "stripping of FunctionStub.render (stripParts: longest module first, only whole leading name parts) and an evaluator of annotation "
         "expressions in the namespace a stub provides (Model/EvalAnno.lean: imports executed in order over the target module's classes and "
         "builtins; Optional/Union/Tuple[()]/Tuple[X, ...] as typing reads them): for every TypedDict-free type, every class-name table and "
         "every namespace in which each name the annotation uses denotes what was rendered (decidable hypothesis namesOk), evaluating the "
         "rendered, stripped annotation gives a type with exactly the members of the rendered type (both readings of Any). Also: shape "
         "lemmas, no class stub for a TypedDict-free type (no_td_no_classes), every name a field of a generated TypedDict class needs is "
         "imported (td_fields_imported), Union admits exactly what an argument admits (union_members), classesIn_of_functional, "
         "classesT_names, renderT_noTD. The statement is also evaluated on every generated stub: the import block is really executed in an empty namespace, the "
         "class stubs registered, every annotation evaluated and compared with the rendered type. Tied to /repo by comparing annotation "
         "text, stripped stub text, import sets (per annotation and of a whole ModuleStub), generated class names, class texts in stub "
         "order, the text of every annotation component and the evaluation result of every annotation, TypedDict classes included "
         "(model evaluator vs Python's eval of the real stub)."),
   ref="DESIGN.md section 4 C11",
   note=("the theorems' decidable hypotheses (ClassesIn, namesOkT / namesOk) are exactly what the two open findings violate "
         "(KF-C11-td-class-name-collision, KF-C11-same-name-two-modules; both witnessed in Props/C11.lean); that annotation text parses to "
         "the expression tree the model prints is CPython's (observed); isIdent / base-class resolution simplifications are listed in DESIGN section 7"),
   technique="Lean 4 proof (mutual structural induction over types: evaluator o strip o render preserves members) + executable correspondence (text, imports, class names, evaluation) + direct evaluation of generated stubs"),
 "C14": dict(
   text=("Lean 4 theorems with set/dict iteration order, hash seeds, memory layout, row order and repetition modelled as two lists with the "
         "same members: shrink_types of such lists gives types that are equal as Python compares them - union members as a set, TypedDict "
         "fields as a dict, recursively (shrink_set, by functional induction over shrink; corollaries shrink_perm, shrink_dup, infer_set, "
         "shrinkPerm_holds); Python == on types is an equivalence relation on well-formed types (eqv_equivalence); typing.Union[...] has "
         "exactly the members of its arguments (mkUnion_members, mkUnion_perm, mkUnion_dup); required / optional keys of a merged TypedDict "
         "do not depend on order or multiplicity (reqKeys_perm, optKeys_perm, reqKeys_dup); batch / connection / process splits disappear "
         "through C09's adds_commute and stale rows through C10; past the merge, RewriteLargeUnion on a union of classes gives the same class "
         "for every permutation of the members (large_union_order_independent) and the text of a module stub is a function of the multiset "
         "of its blocks (module_render_order_independent, tied to ModuleStub.render by corr.C14.moduleRender). The property itself is checked "
         "directly: `stub` is run in fresh interpreter processes with different PYTHONHASHSEED values on stores built from permutations, "
         "duplications, batch splits, re-dated rows and duplicate-heavy histories queried with --limit, k in {0,3}, with and without "
         "rewriting, and the ast-canonicalised outputs must coincide."),
   ref="DESIGN.md section 4 C14",
   note=("partial: proved up to and including the merge, for the large-union rewriter on class unions and for the block order of the module stub; "
         "that the other rewriters and the annotation renderer map == types to the same text up to member order is observed by the cross-process "
         "comparison, not proved. Two genuine order dependences found by this check were fixed in /repo (6093805, 9114e8b)"),
   technique="Lean 4 proof (equivalence-relation lemmas for type equality, functional induction over shrink under set-equality of arguments) + cross-process differential runs of the real CLI"),
 "C15": dict(
   text=("`apply` is libcst's ApplyTypeAnnotationsVisitor driven by MonkeyType; what is MonkeyType's own has Lean 4 theorems: the import remover "
         "that runs under --pep_563 is the identity on every non-import statement and keeps block structure at any nesting depth "
         "(non_imports_untouched, block_structure_kept), it is idempotent on the source (remove_idempotent_on_source, via C16.source_imports_stay), "
         "and with overwriting off the stub fed to libcst has no annotation for an annotated position (C13.omit_blank). The property as a whole "
         "is decided on generated modules: result parses; AST with annotations / added imports / added TYPE_CHECKING blocks / generated TypedDict "
         "classes erased (path-aware eraser) equals the original's; existing annotations unchanged unless overwriting; every stub annotation "
         "for an unannotated position present; a second application changes nothing."),
   ref="DESIGN.md section 4 C15",
   note=("partial: the weakest proof-level claim - libcst's visitors are outside the model, so the theorems cover only MonkeyType's glue and the "
         "rest is an exploration over generated sources x overwrite x k x confinement. One open finding (overwrite + confinement re-apply adds "
         "runtime imports); two defects fixed (920659e, 69d2652)"),
   technique="Lean 4 proof over a model of MonkeyType's import remover / annotation strategy + AST eraser-and-diff of the real apply on generated modules"),
 "C16": dict(
   text=("Lean 4 theorems over a model of get_newly_imported_items / the movable filter / RemoveImportsTransformer on statement trees of any "
         "shape: no import item the source has is ever moved (new_items_disjoint), names covered by a source star import are not moved "
         "(star_covered_not_moved), typing names and mypy_extensions.TypedDict stay at run time (typing_not_moved, typeddict_base_not_moved), "
         "every other new stub import is moved (new_items_all_moved), and removing the moved items leaves every source statement - top level, "
         "function body, existing TYPE_CHECKING block, aliased or not - exactly as it is (source_imports_stay, by mutual structural induction). "
         "The model is tied to /repo by comparing the set of items the real transformer placed in the new TYPE_CHECKING block with the model's "
         "`movable (newlyImported stub src stars)` for every generated case; the result is also parsed, checked for the __future__ import first, "
         "import placement, and executed (module imported and workload re-run, output compared with the original's)."),
   ref="DESIGN.md section 4 C16",
   note=("libcst's placement of added imports and `behaves as before` are observed, not proved; MonkeyType's selection/removal logic is proved. "
         "Five defects fixed (d5d95fa, 677399a, 71224ef, 920659e, 69d2652)"),
   technique="Lean 4 proof (mutual structural induction over statement trees) + differential correspondence on the moved-import set + execution of the result"),
}


# --- additions of the session of 2026-09-30 (Model/FuncDef: one function, all its decoded traces) ---
CLAIMED["C01"]["text"] += (
    " For whole functions - any number of decoded traces with any argument names, Model/FuncDef.lean = shrink_traced_types + "
    "get_updated_definition - definition_arg_sound, definition_yield_sound, definition_return_sound: the annotation of a traced, "
    "unannotated (or overridden) non-receiver parameter / of the yield / return position admits every value that was a tight member "
    "of the type recorded for it in ANY of the traces (under whatever limits they were recorded), and definition_untraced_param: a "
    "parameter no trace mentions gets nothing; tied to the real functions by corr.C01.shrinkTraced / corr.C01.definition.")
CLAIMED["C12"]["text"] += (
    " For whole functions (Model/FuncDef.lean): decorator_matches_kind, decorator_injective, head_lines (`async` exactly for coroutine "
    "functions, on the def line), receiver_kinds, definition_mirrors_signature (same parameter names in the same order, kind and async "
    "kept) and receiver_never_traced (the receiver never gets a traced type, whatever the traces say about self / cls); "
    "FunctionKind.from_callable / has_self / the decorator line are tied by corr.C12.kind.")
CLAIMED["C13"]["text"] += (
    " The whole-function composition (shrink_traced_types, rewriter, update_signature_args / _return) is Model/FuncDef.updatedDefinition, "
    "compared with the real get_updated_definition on random trace lists (corr.C13.shrinkTraced, corr.C13.definition); "
    "definition_keeps_source_annotation / definition_omits_annotated / definition_return_annotated state the default and omit modes for "
    "whole functions, whatever the traces and the rewriter.")
CLAIMED["C14"]["text"] += (
    " For the traces of one function (Model/FuncDef.shrinkTraced = shrink_traced_types): traced_types_depend_on_the_set - two trace "
    "lists with the same members give, for every parameter name and for the return and yield positions, both nothing or == types "
    "(tied by corr.C14.shrinkTraced); definition_params_depend_on_the_set lifts it to the parameters of the whole definition when no "
    "rewriter is configured.")

NOT_YET = "check not built yet (build in progress; see DESIGN.md section 10)"

def main():
    checks = []
    for pid in PROPS:
        if pid not in CLAIMED:
            continue
        c = CLAIMED[pid]
        checks.append({
            "property_id": pid,
            "quick_cmd": "./check %s --tier quick" % pid,
            "thorough_cmd": "./check %s --tier thorough" % pid,
            "evidence_file": "evidence/%s.json" % pid,
            "replay_cmd_template": "./check %s --replay {path}" % pid,
            "engine": "lean-model+correspondence",
            "level_claimed": {"category": "proof", "text": c["text"], "design_ref": c["ref"]},
            "level_note": c["note"],
            "technique": c["technique"],
        })
    m = {
        "version": 1,
        "setup_cmd": "cd lean && lake build",
        "hooks": {
            "guard": "MONKEYTYPE_VERIF",
            "enable": "no hooks are compiled into /repo; the guard name is reserved. Checks import monkeytype from /repo's working tree in-process.",
            "baseline_off_cmd": "cd /repo && /venv/bin/python -m pytest -ra -q -p no:cacheprovider --timeout=900 --continue-on-collection-errors",
            "source_commits": [],
            "add_only": True,
        },
        "engines": [{"name": "lean-model+correspondence", "path": "lean/ harness/ check",
                     "serves_properties": sorted(CLAIMED),
                     "kind_free_text": "Lean 4 model + theorems (lean/MTVerif), compiled line-protocol driver, Python differential harness"}],
        "checks": checks,
        "notes": "fix: commits in /repo: %s. Known findings: known_findings.txt." % ", ".join(repo_commits("fix:")),
        "not_applicable": [{"property_id": p, "reason": NOT_YET} for p in PROPS if p not in CLAIMED],
    }
    json.dump(m, open("/verif/MANIFEST.json", "w"), indent=1)

if __name__ == "__main__":
    main()
