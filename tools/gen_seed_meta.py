#!/usr/bin/env python3
"""Writes seeded/<name>/meta.json from the sub-agent's report (agent_meta.json) and the self-test matrix (seeded/MATRIX.txt)."""
import glob
import json
import os
import subprocess

ROOT = os.path.dirname(os.path.dirname(os.path.abspath(__file__)))
matrix = {}
mp = os.path.join(ROOT, "seeded", "MATRIX.txt")
if os.path.exists(mp):
    for line in open(mp):
        parts = line.split()
        if len(parts) >= 3 and parts[0].startswith("seeded/"):
            matrix.setdefault(parts[0].split("/")[1], {})[parts[1]] = " ".join(parts[2:])
head = subprocess.run(["git", "-C", "/repo", "rev-parse", "--short", "HEAD"], capture_output=True, text=True).stdout.strip()
for d in sorted(glob.glob(os.path.join(ROOT, "seeded", "*", ""))):
    name = os.path.basename(os.path.dirname(d))
    am = {}
    p = os.path.join(d, "agent_meta.json")
    if os.path.exists(p):
        am = json.load(open(p))
    applies = subprocess.run(["git", "-C", "/repo", "apply", "--check", os.path.join(d, "patch.diff")], capture_output=True).returncode == 0
    meta = {
        "property": name.split("-")[0],
        "breaks": am.get("summary", ""),
        "needs_to_manifest": am.get("needs", ""),
        "files_touched": am.get("files", []),
        "why_existing_tests_miss_it": am.get("why_tests_miss", ""),
        "produced_by": "fresh sub-agent given only the property text and its own scratch worktree of /repo under /tmp",
        "confirmed_with": ["tools/confirm_seed.sh seeded/%s  (demo passes on clean HEAD; patch applies; pinned suite passes with it; demo fails with it)" % name,
                           "tools/seed_matrix.sh  (checks run with VERIF_REPO=<scratch worktree with the patch>; see seeded/MATRIX.txt)"],
        "applies_to_repo_head": head if applies else "NO (%s)" % head,
        "check_results": matrix.get(name, {}),
        "never_committed_to_repo": True,
    }
    with open(os.path.join(d, "meta.json"), "w") as f:
        json.dump(meta, f, indent=1)
        f.write("\n")
print("wrote", len(glob.glob(os.path.join(ROOT, "seeded", "*", "meta.json"))), "meta.json files")
