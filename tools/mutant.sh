#!/bin/bash
# Self-test: apply a patch to a scratch worktree of /repo (outside /repo and /verif), optionally run the
# pinned suite there, run the given checks against it, remove the worktree.
# usage: tools/mutant.sh [--baseline] <patch.diff> <Cxx> [<Cxx> ...]
BASE=0
if [ "$1" = "--baseline" ]; then BASE=1; shift; fi
PATCH=$(realpath "$1"); shift
W=$(mktemp -d /tmp/mtv_mut.XXXXXX)
git -C /repo worktree add --detach -f "$W" HEAD >/dev/null 2>&1 || { echo "worktree failed"; exit 2; }
trap 'git -C /repo worktree remove --force "$W" >/dev/null 2>&1; rm -rf "$W"' EXIT
git -C "$W" apply "$PATCH" || { echo "patch does not apply"; exit 2; }
if [ $BASE = 1 ]; then /verif/tools/baseline.sh "$W"; fi
for c in "$@"; do
  echo "== $c on mutant $(basename $(dirname $PATCH))/$(basename $PATCH)"
  (cd ${VERIF_HOME:-/verif} && VERIF_REPO="$W" ./check "$c" --tier ${MUT_TIER:-quick}; echo "rc=$?")
done
