#!/bin/bash
# After a fix: commit in /repo, re-base every stored patch (seeded/*/patch.diff, mutants/**/patch.diff or *.diff) that no longer
# applies to /repo's HEAD: 3-way apply in a scratch worktree (the patch's index lines name blobs the repository still has) and
# rewrite the patch as the diff against HEAD.  Patches that conflict are listed and left alone.
W=$(mktemp -d /tmp/mtv_rebase.XXXXXX)
git -C /repo worktree add -q --detach $W HEAD || exit 2
for p in $(find /verif/seeded /verif/mutants \( -name '*.diff' -o -name '*.patch' \) | sort); do
  git -C $W checkout -q -- . ; git -C $W reset -q --hard HEAD
  if git -C $W apply --check $p 2>/dev/null; then continue; fi
  if git -C $W apply --3way $p >/dev/null 2>&1 && ! git -C $W diff --name-only --diff-filter=U | grep -q .; then
    git -C $W diff HEAD -- . > $p.new
    if [ -s $p.new ] && ! grep -q '^<<<<<<<\|^+<<<<<<<' $p.new; then mv $p.new $p; echo "rebased $p"; else rm -f $p.new; echo "CONFLICT $p"; fi
  else
    echo "CONFLICT $p"
  fi
done
git -C /repo worktree remove --force $W; rm -rf $W
