#!/bin/bash
# For every `fix:` commit of /repo: revert it alone in a scratch worktree (git revert --no-commit), confirm the pinned suite
# still passes there (it did before the fix), run the checks of the properties the fix is recorded under, remove the worktree.
# Shows that a fixed defect is reported again if it ever returns.  Writes seeded/REVERTS.txt.
cd ${VERIF_HOME:-/verif}
out=seeded/REVERTS.txt
: > $out.tmp
git -C /repo log --format='%h %s' | grep ' fix:' | while read c msg; do
  props=$(grep "^fixed: .* $c " known_findings.txt | grep -o 'C[0-9][0-9]' | sort -u | tr '\n' ' ')
  W=$(mktemp -d /tmp/mtv_rev.XXXXXX)
  git -C /repo worktree add --detach -f "$W" HEAD >/dev/null 2>&1 || { echo "$c worktree failed" >> $out.tmp; continue; }
  if git -C "$W" revert --no-commit $c >/dev/null 2>&1; then
    tools/baseline.sh "$W" >/dev/null 2>&1; base=$?
    for p in $props; do
      outp=$(cd ${VERIF_HOME:-/verif} && VERIF_INTENSIFY=${REV_INTENSIFY:-0} VERIF_REPO="$W" ./check $p --tier quick 2>&1); rc=$?
      r=$(echo "$outp" | grep -E "^VIOLATION" | head -1)
      v=MISSED; [ -n "$r" ] && [ $rc = 1 ] && v=caught; [ $rc = 2 ] && v="ERROR(rc=2)"
      case "$r" in *no-failing-input-found*) v="caught (no-failing-input-found)";; esac
      echo "$c  $p  $v  suite=$base  :: $msg" >> $out.tmp
    done
  else
    # a later fix touches the same lines: the equivalent hand mutant (same behaviour change on today's code) is in mutants/
    case $c in
      920659e) m=mutants/C16-star-filter-removed.patch;;
      15edae6) m=mutants/C11-strip-shortest-first.patch;;
      4c3b70d) m=mutants/C11-strip-no-boundary.patch;;
      aed937c) m=mutants/C18-draw-on-resumption.patch;;
      *) m="";;
    esac
    echo "$c  -  revert-conflicts (see ${m:-no equivalent} in MATRIX.txt)  :: $msg" >> $out.tmp
  fi
  git -C "$W" revert --abort >/dev/null 2>&1
  git -C /repo worktree remove --force "$W" >/dev/null 2>&1; rm -rf "$W"
done
mv $out.tmp $out
cat $out
