#!/bin/bash
# Self-test matrix: every seeded change and every hand mutant against the check of its own property (and any extra ids given in
# seeded/<name>/also).  Writes seeded/MATRIX.txt.  Scratch worktrees under /tmp are removed by tools/mutant.sh.
# VERIF_HOME (default /verif): the tree whose checks are run (a private copy lets the matrix run while /verif is being edited);
# PAR (default 5): jobs in parallel.
cd ${VERIF_HOME:-/verif}
out=seeded/MATRIX.txt
tmp=$(mktemp -d /tmp/mtv_matrix.XXXXXX)
jobs=$tmp/jobs
: > $jobs
for d in seeded/*/; do
  n=$(basename $d); id=${n%%-*}
  [ -f $d/obsolete ] && continue
  for c in $id $(cat $d/also 2>/dev/null); do echo "seeded/$n $d/patch.diff $c" >> $jobs; done
done
for p in mutants/*.patch mutants/*/*.patch; do
  [ -f "$p" ] || continue
  id=$(echo $p | grep -o 'C[0-9][0-9]' | head -1)
  echo "$p $p $id" >> $jobs
done
one() {
  label=$1; patch=$2; c=$3
  r=$(tools/mutant.sh $patch $c 2>&1 | grep -E "^VIOLATION|^rc=|does not apply" | tr '\n' ' ')
  case "$r" in *VIOLATION*rc=1*) v=caught;; *rc=0*) v=MISSED;; *) v="ERROR($r)";; esac
  nf=""; case "$r" in *no-failing-input-found*) nf=" (no-failing-input-found)";; esac
  echo "$label  $c  $v$nf"
}
export -f one
nl -ba $jobs | while read i label patch c; do echo "$i $label $patch $c"; done | \
  xargs -P ${PAR:-5} -L 1 bash -c 'one $1 $2 $3 > '$tmp'/r.$(printf %04d $0)'
cat $tmp/r.* > $out
rm -rf $tmp
cat $out
