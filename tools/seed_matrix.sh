#!/bin/bash
# Self-test matrix: every seeded change and every hand mutant against the check of its own property (and any extra ids given in
# seeded/<name>/also).  Writes seeded/MATRIX.txt.  Scratch worktrees under /tmp are removed by tools/mutant.sh.
cd /verif
out=seeded/MATRIX.txt
: > $out.tmp
for d in seeded/*/; do
  n=$(basename $d); id=${n%%-*}
  ids="$id $(cat $d/also 2>/dev/null)"
  for c in $ids; do
    r=$(tools/mutant.sh $d/patch.diff $c 2>&1 | grep -E "^VIOLATION|^rc=" | tr '\n' ' ')
    case "$r" in *VIOLATION*rc=1*) v=caught;; *rc=0*) v=MISSED;; *) v="ERROR($r)";; esac
    nf=""; case "$r" in *no-failing-input-found*) nf=" (no-failing-input-found)";; esac
    echo "seeded/$n  $c  $v$nf" >> $out.tmp
  done
done
for p in mutants/*.patch mutants/*/*.patch; do
  [ -f "$p" ] || continue
  n=$(basename $p .patch); id=$(echo $p | grep -o 'C[0-9][0-9]' | head -1)
  r=$(tools/mutant.sh $p $id 2>&1 | grep -E "^VIOLATION|^rc=|does not apply" | tr '\n' ' ')
  case "$r" in *VIOLATION*rc=1*) v=caught;; *rc=0*) v=MISSED;; *) v="ERROR($r)";; esac
  nf=""; case "$r" in *no-failing-input-found*) nf=" (no-failing-input-found)";; esac
  echo "$p  $id  $v$nf" >> $out.tmp
done
mv $out.tmp $out
cat $out
