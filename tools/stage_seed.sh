#!/bin/bash
# Stage a seeded change produced by a sub-agent in its scratch worktree: copy the deliverables into seeded/<name>/,
# confirm it (tools/confirm_seed.sh), run the property's check against it (tools/mutant.sh) and remove the agent's worktree.
# usage: tools/stage_seed.sh <worktree> <name e.g. C17-allowlist-substring> [extra check ids...]
W=$1; NAME=$2; shift 2
ID=${NAME%%-*}
D=/verif/seeded/$NAME
mkdir -p $D
cp $W/_seed/patch.diff $W/_seed/demo.py $W/_seed/agent_meta.json $D/ || { echo "deliverables missing"; exit 2; }
echo "_seed/demo.py" > $D/demo_path
[ $# -gt 0 ] && echo "$@" > $D/also
cd /verif
tools/confirm_seed.sh seeded/$NAME | tail -4
for c in $ID "$@"; do tools/mutant.sh $D/patch.diff $c 2>&1 | grep -E "^==|^VIOLATION|^rc=" | cut -c1-200; done
git -C /repo worktree remove --force $W 2>/dev/null; rm -rf $W
