#!/usr/bin/env python3
"""validate MANIFEST.json and evidence/*.json against the given schemas (python3-vt has jsonschema)"""
import json, sys, glob
import jsonschema
ok = True
m = json.load(open('/verif/MANIFEST.json'))
try:
    jsonschema.validate(m, json.load(open('/root/.vp/MANIFEST.schema.json')))
    print("MANIFEST ok: %d checks, %d not_applicable" % (len(m['checks']), len(m.get('not_applicable', []))))
except jsonschema.ValidationError as e:
    ok = False; print("MANIFEST INVALID:", e.message)
es = json.load(open('/root/.vp/EVIDENCE.schema.json'))
for p in sorted(glob.glob('/verif/evidence/*.json')):
    try:
        jsonschema.validate(json.load(open(p)), es); print("evidence ok:", p)
    except jsonschema.ValidationError as e:
        ok = False; print("evidence INVALID:", p, e.message)
props = {json.loads(l)['id'] for l in open('/verif/properties.jsonl')}
claimed = {c['property_id'] for c in m['checks']}
na = {c['property_id'] for c in m.get('not_applicable', [])}
if claimed | na != props or claimed & na:
    ok = False; print("coverage mismatch: missing", props - claimed - na, "both", claimed & na)
sys.exit(0 if ok else 1)
